"""Minimal Rust source scanner used by the extractor.

It does not parse Rust.  It (a) masks comments and string/char literals so that
brace matching can be done on plain characters, (b) splits a region into items
at brace depth 0, and (c) parses the head of an item far enough to know its
kind, its name, where the signature ends and where the body is.  Item text is
always copied from the unmasked source, byte for byte.
"""
import re


class ScanError(Exception):
    pass


def mask(src: str) -> str:
    """Return a string of the same length as src in which the contents of
    comments, string literals and char literals are replaced by spaces
    (newlines are kept).  Delimiters of strings are replaced as well, so the
    mask contains only code characters."""
    out = list(src)
    n = len(src)
    i = 0

    def blank(a, b):
        for k in range(a, b):
            if out[k] != "\n":
                out[k] = " "

    while i < n:
        c = src[i]
        if c == "/" and i + 1 < n and src[i + 1] == "/":
            j = src.find("\n", i)
            if j < 0:
                j = n
            blank(i, j)
            i = j
        elif c == "/" and i + 1 < n and src[i + 1] == "*":
            depth = 1
            j = i + 2
            while j < n and depth > 0:
                if src.startswith("/*", j):
                    depth += 1
                    j += 2
                elif src.startswith("*/", j):
                    depth -= 1
                    j += 2
                else:
                    j += 1
            blank(i, j)
            i = j
        elif c == '"' or (c in "rb" and _raw_or_byte_string_at(src, i)):
            j = _string_end(src, i)
            blank(i, j)
            i = j
        elif c == "'":
            # char literal or lifetime
            if i + 1 < n and src[i + 1] == "\\":
                j = src.find("'", i + 2)
                # '\'' : the quote right after the backslash is escaped
                if j == i + 2:
                    j = src.find("'", i + 3)
                if j < 0:
                    raise ScanError("unterminated char literal")
                blank(i, j + 1)
                i = j + 1
            elif i + 2 < n and src[i + 2] == "'":
                blank(i, i + 3)
                i += 3
            else:
                # lifetime or multi-byte char literal such as '•'
                m = re.match(r"'[^'\\\n]'", src[i:i + 8])
                if m and not re.match(r"'[A-Za-z_]", src[i:i + 2]):
                    blank(i, i + m.end())
                    i += m.end()
                else:
                    i += 1
        else:
            i += 1
    return "".join(out)


def _raw_or_byte_string_at(src, i):
    # identifiers ending in r/b must not be taken for string prefixes
    if i > 0 and (src[i - 1].isalnum() or src[i - 1] == "_"):
        return False
    return re.match(r'(b?r#*"|b")', src[i:i + 12]) is not None


def _string_end(src, i):
    m = re.match(r'(b?)(r?)(#*)"', src[i:i + 12])
    raw = m.group(2) == "r"
    hashes = m.group(3)
    j = i + m.end()
    n = len(src)
    if raw:
        term = '"' + hashes
        k = src.find(term, j)
        if k < 0:
            raise ScanError("unterminated raw string")
        return k + len(term)
    while j < n:
        if src[j] == "\\":
            j += 2
        elif src[j] == '"':
            return j + 1
        else:
            j += 1
    raise ScanError("unterminated string")


OPEN = "({["
CLOSE = ")}]"
PAIR = {")": "(", "}": "{", "]": "["}


def match_close(m: str, i: int) -> int:
    """m is masked text, m[i] an opening bracket; return index of its closer."""
    stack = []
    n = len(m)
    j = i
    while j < n:
        c = m[j]
        if c in OPEN:
            stack.append(c)
        elif c in CLOSE:
            if not stack or stack[-1] != PAIR[c]:
                raise ScanError("unbalanced bracket at %d" % j)
            stack.pop()
            if not stack:
                return j
        j += 1
    raise ScanError("no closing bracket for %d" % i)


def skip_angle(m: str, i: int) -> int:
    """m[i] == '<' opening a generics list; return index just after the
    matching '>'.  '->' and '=>' are not closers."""
    depth = 0
    j = i
    n = len(m)
    while j < n:
        c = m[j]
        if c == "<":
            depth += 1
        elif c == ">" and m[j - 1] not in "-=":
            depth -= 1
            if depth == 0:
                return j + 1
        elif c in "([":
            j = match_close(m, j)
        elif c in "{;":
            raise ScanError("generics not closed")
        j += 1
    raise ScanError("generics not closed")


ITEM_KW = ("fn", "struct", "enum", "impl", "type", "trait", "mod", "use",
           "const", "static", "union", "macro_rules", "extern")
QUALIFIERS = ("pub", "unsafe", "async", "default", "const", "extern")

_ident = re.compile(r"[A-Za-z_][A-Za-z0-9_]*")
_ws = re.compile(r"\s*")


class Item:
    """One item found in a region of a file."""
    __slots__ = ("kind", "name", "start", "head", "sig_end", "body_open",
                 "end", "impl_type", "impl_trait", "cfg_test")

    def __repr__(self):
        return "Item(%s %s @%d..%d)" % (self.kind, self.name, self.start, self.end)


def items(src: str, m: str, lo: int, hi: int):
    """Yield the items whose text lies in src[lo:hi] at relative brace depth 0."""
    i = lo
    while True:
        i = _skip_ws(m, i, hi)
        if i >= hi:
            return
        it = _item_at(src, m, i, hi)
        yield it
        i = it.end


def _skip_ws(m, i, hi):
    while i < hi and m[i].isspace():
        i += 1
    return i


def _item_at(src, m, i, hi):
    it = Item()
    it.start = i
    it.impl_type = it.impl_trait = None
    it.cfg_test = False
    # attributes
    j = i
    while True:
        j = _skip_ws(m, j, hi)
        if m.startswith("#", j):
            k = j + 1
            if m.startswith("!", k):
                k += 1
            k = _skip_ws(m, k, hi)
            if k >= hi or m[k] != "[":
                raise ScanError("bad attribute at %d" % j)
            e = match_close(m, k)
            if re.search(r"cfg\s*\(\s*test\s*\)", m[k:e + 1]):
                it.cfg_test = True
            j = e + 1
        else:
            break
    it.head = j
    # qualifiers
    kw = None
    while True:
        j = _skip_ws(m, j, hi)
        mm = _ident.match(m, j)
        if not mm:
            # macro invocation or stray token: take up to ; or matching brace
            break
        w = mm.group(0)
        if w == "pub":
            j = mm.end()
            k = _skip_ws(m, j, hi)
            if k < hi and m[k] == "(":
                j = match_close(m, k) + 1
            continue
        if w in ("unsafe", "async", "default"):
            j = mm.end()
            continue
        if w == "extern":
            j = mm.end()
            k = _skip_ws(m, j, hi)
            # extern "C" fn / extern crate
            if k < hi and src[k] == '"':
                j = _string_end(src, k)
            continue
        if w == "const":
            # const fn vs const item
            k = _skip_ws(m, mm.end(), hi)
            m2 = _ident.match(m, k)
            if m2 and m2.group(0) in ("fn", "unsafe", "async", "extern"):
                j = mm.end()
                continue
        kw = w
        j = mm.end()
        break
    it.kind = kw if kw in ITEM_KW else "other"
    it.name = None
    it.sig_end = it.body_open = None
    if it.kind in ("fn", "struct", "enum", "type", "trait", "mod", "union", "const", "static"):
        k = _skip_ws(m, j, hi)
        mm = _ident.match(m, k)
        if mm:
            it.name = mm.group(0)
            j = mm.end()
    if it.kind == "impl":
        k = _skip_ws(m, j, hi)
        if k < hi and m[k] == "<":
            k = skip_angle(m, k)
        # header up to body brace
        b = _find_body_open(m, k, hi)
        header = m[k:b]
        # split at ' for ' at angle depth 0
        t, tr = _split_impl_header(header)
        it.impl_type = _type_name(t)
        it.impl_trait = _type_name(tr) if tr else None
        it.name = it.impl_type
        j = k
    # find the end of the item
    e = _item_end(m, j, hi, it)
    it.end = e
    return it


def _find_body_open(m, j, hi):
    k = j
    while k < hi:
        c = m[k]
        if c == "{":
            return k
        if c in "([":
            k = match_close(m, k)
        elif c == ";":
            raise ScanError("no body")
        k += 1
    raise ScanError("no body brace")


def _split_impl_header(h):
    depth = 0
    i = 0
    n = len(h)
    while i < n:
        c = h[i]
        if c == "<":
            depth += 1
        elif c == ">" and h[i - 1] not in "-=":
            depth -= 1
        elif depth == 0 and re.match(r"\sfor\s", h[i:i + 5]):
            return h[i + 5:], h[:i]
        i += 1
    return h, None


def _type_name(t):
    t = t.strip()
    t = re.split(r"\bwhere\b", t)[0].strip()
    # strip leading & and generics
    t = t.lstrip("&").strip()
    base = re.split(r"<", t, maxsplit=1)[0].strip()
    return base.split("::")[-1].strip()


def _item_end(m, j, hi, it):
    """Return index just past the item, starting the search at j."""
    k = j
    while k < hi:
        c = m[k]
        if c == ";":
            it.sig_end = k
            return k + 1
        if c == "{":
            it.sig_end = k
            it.body_open = k
            e = match_close(m, k)
            return e + 1
        if c in "([":
            k = match_close(m, k)
        elif c == "<" and it.kind in ("fn", "impl", "struct", "enum", "trait", "type"):
            # generics may contain Fn(..) -> T; skip them as a unit when they look like generics
            try:
                k = skip_angle(m, k) - 1
            except ScanError:
                pass
        elif c == "=" and it.kind in ("const", "static", "type") :
            # initialiser may contain braces: run to the ';' at depth 0
            k2 = k
            while k2 < hi and m[k2] != ";":
                if m[k2] in OPEN:
                    k2 = match_close(m, k2)
                k2 += 1
            it.sig_end = k2
            return k2 + 1
        k += 1
    raise ScanError("item at %d has no end" % it.start)


class FnParts:
    __slots__ = ("name", "params_open", "params_close", "ret_start", "ret_end",
                 "where_start", "body_open", "body_close")


def fn_parts(src, m, it: Item) -> FnParts:
    """Locate the pieces of a fn item's signature."""
    assert it.kind == "fn"
    p = FnParts()
    p.name = it.name
    # position after the name
    mm = re.compile(r"\bfn\s+" + re.escape(it.name) + r"\b").search(m, it.head, it.sig_end)
    j = mm.end()
    j = _skip_ws(m, j, it.sig_end)
    if m[j] == "<":
        j = skip_angle(m, j)
        j = _skip_ws(m, j, it.sig_end)
    if m[j] != "(":
        raise ScanError("fn %s: parameter list not found" % it.name)
    p.params_open = j
    p.params_close = match_close(m, j)
    j = _skip_ws(m, p.params_close + 1, it.sig_end + 1)
    p.ret_start = p.ret_end = None
    p.where_start = None
    end = it.sig_end
    # 'where' at depth 0 between here and body
    wm = None
    k = j
    while k < end:
        c = m[k]
        if c in "([":
            k = match_close(m, k)
        elif c == "<":
            try:
                k = skip_angle(m, k) - 1
            except ScanError:
                pass
        elif m.startswith("where", k) and not (m[k - 1].isalnum() or m[k - 1] == "_") and not (m[k + 5].isalnum() or m[k + 5] == "_"):
            wm = k
            break
        k += 1
    p.where_start = wm
    if m.startswith("->", j):
        p.ret_start = _skip_ws(m, j + 2, end)
        re_end = wm if wm is not None else end
        # trim trailing whitespace
        while re_end > p.ret_start and m[re_end - 1].isspace():
            re_end -= 1
        p.ret_end = re_end
    p.body_open = it.body_open
    p.body_close = it.end - 1 if it.body_open is not None else None
    return p


def statement_end(m, start, hi):
    """start is the first character of a statement inside a block; return the
    index just past its end (past ';' or past a closing '}' not followed by
    'else')."""
    k = start
    while k < hi:
        c = m[k]
        if c == ";":
            return k + 1
        if c in "([":
            k = match_close(m, k)
        elif c == "{":
            k = match_close(m, k)
            j = _skip_ws(m, k + 1, hi)
            if m.startswith("else", j):
                k = j + 3
            elif j < hi and m[j] in ".?":
                pass  # method chain on a block expression
            elif j < hi and m[j] == ";":
                return j + 1
            else:
                return k + 1
        k += 1
    return hi


def loop_headers(m, lo, hi):
    """Yield (kw_start, body_open) for each for/while/loop in m[lo:hi] in
    textual order."""
    for mm in re.finditer(r"\b(for|while|loop)\b", m[lo:hi]):
        s = lo + mm.start()
        # 'for' in 'impl X for Y' / HRTB cannot occur inside fn bodies except for<'a>; skip those
        k = s + len(mm.group(1))
        if m[k:k + 1] == "<":
            continue
        try:
            b = _find_body_open_expr(m, k, hi)
        except ScanError:
            continue
        yield s, b


def _find_body_open_expr(m, j, hi):
    """Find the '{' that opens the body of a loop whose header starts at j.
    Struct literals are not allowed unparenthesised in loop headers, so the
    first '{' at bracket depth 0 is the body."""
    k = j
    while k < hi:
        c = m[k]
        if c == "{":
            return k
        if c in "([":
            k = match_close(m, k)
        elif c == ";":
            raise ScanError("no loop body")
        k += 1
    raise ScanError("no loop body")
