"""Which engines serve which property.  Function -> property tagging lives in
the unit templates (//@ unit-props, //@ props, //@ fn-props)."""
import os

VERIF = os.path.dirname(os.path.dirname(os.path.abspath(__file__)))
REPO = os.environ.get("VERIF_REPO", "/repo")
BUILD = os.path.join(VERIF, "build")

A_COMMON = [
    "A1 Verus 0.2026.09.13 / Z3, rustc and the vstd specifications of Vec, Option, HashMap, Range, str::to_string are correct",
    "A3 usize is 64 bits (global size_of usize == 8)",
    "A4 extraction rules T1 (visibility removed), T2 (`|_| {}` gets a typed binder and an ensures clause), "
    "T3 (statement `E.map(|x| S);` -> `if let Some(x) = E { S; }`), T4 (derives other than Debug/PartialEq/Eq/Copy/Hash dropped, "
    "derived Clone replaced by a trusted impl returning an equal value), T7 (contracts/ghost blocks spliced, return value named) preserve meaning",
    "A5 machine integers are checked, not idealised; allocation failure / Vec capacity overflow is ignored",
]

PROPERTIES = {
    "C20": {
        "units": ["arena_forest"], "kani": ["graph_nodes"], "kani_cex": [],
        "explanation": "Forest invariant of the arena (ids = slots, links point forward to live nodes that point back, "
                       "child != next, every live non-root is the child xor next of its prev) is established by build_key and "
                       "preserved by every arena/builder primitive under contract; lemmas derive disjoint subtrees, a unique live "
                       "Document root per block, termination of prev-navigation, and that tombstoning a note leaves the rest a forest; "
                       "Graph::new/new_patch start from an empty forest whose key map names no root; GraphNodePointer::{to_parent,to_document} "
                       "return the parent / the note root. "
                       "All arena sizes, all ids: no bound.",
        "assumptions": A_COMMON + [
            "A6 Key's derived Hash/Eq obey vstd's HashMap key model (axiom_key_model)",
            "A7' process_blocks is verified whole: first_header / first_header_level are verified on their real bodies (rule T12b unfolds `range.into_iter().find / find_map(closure)` into the counting loop it is) and the statement `let positions = content.iter().positions(..).filter(..).filter(..).collect_vec()` is verified after rule T15 unfolds the chain into the index loop it is, closure bodies unchanged (trusted: that itertools::positions / Iterator::filter / collect_vec and Range::find / find_map mean those loops); only the contract of `ranges` is imported, and it is proved in unit `ranges`; A7-input: every Reader delivers blocks without Div and (T9) without Table; what a list item may start with is NOT assumed: it is an obligation at the call `self.process_section(0..b.len(), b)` in block(), which fails on the unchanged tree (known finding); "
            "everything else of the former blanket assumption A7 (slot free at every primitive call) is now a proof obligation of "
            "SectionsBuilder::{new,process_section,section_block,block}, Graph::from_markdown and insert_from_iter/append_from_visitor; "
            "two known findings (list-head overwrite; item head that section_block has no arm for), two defects repaired (aa1f5f1, ea464ca)",
            "T11 the NodeIter interface is declared with ghost members (size, node_s, child_s, next_s); that every implementor's "
            "next/child/node agree with a finite tree is assumed (for SquashIter this is the termination half of C17)",
            "not covered: the Table arm of add_new_node_and and of SectionsBuilder::block (T9); GraphNodePointer::is_document is assumed to report the arena kind (it goes through NodeIter::node(), string code)",
        ],
    },
    "C04": {
        "units": ["arena_forest"], "kani": [], "kani_cex": [],
        "explanation": "PARTIAL (arena half of incremental update): new ids are always the arena length (never reused); "
                       "delete_branch tombstones exactly the old subtree and blanks exactly its lines; update_key leaves every slot "
                       "outside the old version of the edited note untouched, and the state handed to the parser is again a forest "
                       "in which the old version is unreachable; index_node (re-indexing of the new root) reaches every node of the new subtree "
                       "(failed on the original tree for nodes after a table: fixed in /repo aa1f5f1). Not covered: RefIndex::merge, "
                       "tombstone filtering by the index readers, title cache, nodes_map, search paths.",
        "assumptions": A_COMMON + [
            "A6 assumed contract of Graph::from_markdown (external): it only appends to the arena",
            "A6 Key's derived Hash/Eq obey vstd's HashMap key model",
            "not covered: RefIndex::merge and the readers' tombstone filtering, keys_to_ref_text, nodes_map, Database",
        ],
    },
    "C03": {
        "units": ["arena_forest", "ranges", "reader_stacks"], "kani": ["positions", "ranges", "graph_nodes"], "kani_cex": [],
        "explanation": "PARTIAL: every panic!/unwrap/expect/index/cast/arithmetic site in the functions under contract is unreachable "
                       "under the stated preconditions and every recursion there has a decreases measure. Not covered: the event "
                       "mapping in MarkdownEventsReader::read, handlers, recursion depth. One reachable panic is a KNOWN FINDING: "
                       "section_block's panic! for a list item that starts with a quote, code block, rule or table (obligation at the call "
                       "`self.process_section(0..b.len(), b)` in SectionsBuilder::block).",
        "assumptions": A_COMMON + [
            "preconditions that unverified callers must supply are assumptions (A7), e.g. GraphNode::id on Empty, node_mut on a tombstone",
        ],
    },
    "C01": {
        "units": ["arena_forest", "ranges", "reader_stacks"], "kani": [], "kani_cex": [],
        "explanation": "PARTIAL (conservation layers only): (a) every stack operation of the Markdown reader (push/pop of blocks and inlines, "
                       "append_block/item/row/cell/inline, apppen) puts the element at the rightmost open position and changes nothing else; "
                       "(b) the section splitter's ranges partition the block range in order; "
                       "(c) each builder primitive appends exactly one node and changes exactly one link of the cursor, which was empty; "
                       "SectionsBuilder::{new,process_section,section_block,block} keep the link they are about to write empty and "
                       "Graph::from_markdown only appends, registers a fresh root and replaces the note's front-matter and line map by what "
                       "this parse produced. Two known findings (list-head overwrite; item head that section_block has no arm for), one "
                       "defect repaired in /repo (ea464ca: a list without item content adopted the following block). "
                       "Parser, event mapping, process_blocks' body and rendering are not covered.",
        "assumptions": A_COMMON + ["A7' process_blocks is verified whole: first_header / first_header_level are verified on their real bodies (rule T12b unfolds `range.into_iter().find / find_map(closure)` into the counting loop it is) and the statement `let positions = content.iter().positions(..).filter(..).filter(..).collect_vec()` is verified after rule T15 unfolds the chain into the index loop it is, closure bodies unchanged (trusted: that itertools::positions / Iterator::filter / collect_vec and Range::find / find_map mean those loops); only the contract of `ranges` is imported, and it is proved in unit `ranges`; A7-input: every Reader delivers blocks without Div and (T9) without Table"],
    },
    "C07": {
        "units": ["ranges", "arena_forest"], "kani": ["ranges"], "kani_cex": [],
        "explanation": "PARTIAL: (i) for all position vectors of any length, the ranges handed to process_section partition "
                       "[first split position, end) in order, each starting at a split position; (ii) process_section / section_block / "
                       "block hang every block under the cursor they were given without overwriting an existing link (two known "
                       "findings; a heading after an empty list became a list item - repaired in /repo ea464ca); (iii) Projector::project / project_node render, for trees of any size, an outline that is well-nested "
                       "from level 1 (each heading at most one level deeper than the one before it, heading level = section nesting "
                       "depth + 1) and restarts at level 1 inside block quotes and list items. The split positions process_blocks computes are proved to be exactly the headings of the range at the level of "
                       "its first heading or above (chain unfolded by rule T15). Not covered: project_list_item (assumed contract), the text renderers and list padding.",
        "assumptions": A_COMMON + [
            "A7' process_blocks is verified whole: first_header / first_header_level are verified on their real bodies (rule T12b unfolds `range.into_iter().find / find_map(closure)` into the counting loop it is) and the statement `let positions = content.iter().positions(..).filter(..).filter(..).collect_vec()` is verified after rule T15 unfolds the chain into the index loop it is, closure bodies unchanged (trusted: that itertools::positions / Iterator::filter / collect_vec and Range::find / find_map mean those loops); only the contract of `ranges` is imported, and it is proved in unit `ranges`; A7-input: every Reader delivers blocks without Div and (T9) without Table",
            "assumed contract of Projector::project_list_item (Option/iterator closure code): called on a projector reset with with(0), "
            "every item it returns restarts the outline at level 1",
            "T11 NodeIter interface with ghost size/height; trees without Table nodes (T9) and fewer than 255 nesting levels",
            "trusted spec of Vec::extend (appends the elements of an owned Vec)",
        ],
    },
    "C13": {
        "units": ["reader_stacks"], "kani": ["positions", "line_starts"], "kani_cex": [],
        "explanation": "PARTIAL (mechanism: byte offset -> line and byte column, given the line-start table): Verus proves for line "
                       "tables of ANY length that to_line_range/to_inline_range return the index of the last table entry <= the offset "
                       "(and offset minus that entry as column), which on a well-formed table is the unique line containing the offset "
                       "(lemma_last_le_is_line, lemma_line_unique); the for-enumerate loop is verified through extraction rule T8 "
                       "(index loop), and Kani re-checks the untouched real functions for table lengths 1..6 (quick) / ..12 (thorough) "
                       "with fully symbolic entries and offsets. BOUNDED: Kani runs the real line_starts on every UTF-8 text of 1- and 2-byte characters that is 0..4 bytes long (quick) / "
                       "..8 bytes (thorough) and checks that the table is 0 followed by the offset after each '\\n' byte, strictly increasing - "
                       "the well-formedness the Verus contract requires, and the right table for LF and CRLF text (the original function "
                       "failed this for \"\\r\\n\": fixed in /repo 64d0327). Not covered: UTF-16 columns (columns are byte offsets), lone \\r "
                       "as a line terminator, Document::link_at/block_at_position, nodes_map lookup, handlers.",
        "assumptions": A_COMMON + [
            "T8 `for (i, &x) in V.iter().enumerate()` -> `for i in 0..V.len() { let x = V[i]; .. }` preserves meaning (cross-checked by the Kani harnesses on the unmodified function for n <= 12)",
            "A7 that the table handed to to_line_range/to_inline_range is the one line_starts built is by inspection of read() (one assignment); "
            "line_starts itself is checked by Kani for texts up to 8 bytes made of 1- and 2-byte UTF-8 characters only (bounded, not proved)",
            "A9 Kani: table length fixed per harness (1..6 quick, up to 12 thorough); text length fixed per line_starts harness (0..4 quick, up to 8 thorough)",
            "T16 `P.iter().collect()` in DocumentInline::child_inlines is read as vec_refs(&P): the references to P's elements, in order (trusted std specification); T12 `.iter().find_map(closure)` in link_at_position is read as the index loop it is",
        ],
    },
    "C05": {
        "units": ["arena_forest"], "kani": [], "kani_cex": [],
        "explanation": "PARTIAL (the index walk): RefIndex::index_node, for arenas of any size, records EXACTLY the links of the "
                       "subtree it is started on: every Reference node reachable through child/next links (of every node kind) under "
                       "its key, every Section/Leaf under each key its line links to, nothing already recorded is lost, nothing else is "
                       "added. This contract failed on the original tree (Table nodes did not follow `next`): fixed in /repo aa1f5f1. "
                       "Not covered: which keys a line links to (Line::ref_keys / GraphInline::ref_keys are string code: an uninterpreted "
                       "function here), key resolution relative to the linking note, is_ref_url, RefIndex::merge and the readers' tombstone "
                       "filter (closures / HashSet::extend), table cells (never indexed), the LSP handlers.",
        "assumptions": A_COMMON + [
            "A6 Key's derived Hash/Eq obey vstd's HashMap key model; trusted spec of hash_map::Entry::or_insert_with (mirrors vstd's or_insert)",
            "T8b `for key in <owned Vec>` is verified as an index loop over borrowed elements",
            "Line::ref_keys is external: its result is an uninterpreted function of the line",
            "callers pass a graph whose arena is a forest with line ids in range (established by the C20 obligations under A7)",
        ],
    },
}
