"""Which engines serve which property.  Function -> property tagging lives in
the unit templates (//@ unit-props, //@ props, //@ fn-props)."""
import os

VERIF = os.path.dirname(os.path.dirname(os.path.abspath(__file__)))
REPO = os.environ.get("VERIF_REPO", "/repo")
BUILD = os.path.join(VERIF, "build")

# property -> verus units (contracts/<unit>.vrs) and kani harness groups (kx.GROUPS)
PROPERTIES = {
    "C07": {"units": ["ranges"], "kani": []},
}

PARTIAL_NOTES = {}
