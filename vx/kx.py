"""Kani engine (filled in below)."""

GROUPS = {}


def run_groups(groups, tier, prop):
    return {"harnesses": [], "cmds": [], "trusted": []}


def evidence(k):
    return None


def counterexample_for(obligation, tier):
    return None
