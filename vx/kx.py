"""Kani engine: run proof harnesses that live in /verif/kani/*.rs and are compiled
into the liwe crate through cfg(kani) hook lines in /repo (MANIFEST.hooks).

A harness calls the REAL function and asserts the contract's postcondition in
executable form.  Labels:
  complete       loop-free, all inputs kani::any() over their full machine domain
  fixed-size n   full-domain scalars, one container of fixed length n (complete for n, bounded over n)
  bounded-shape  concrete node kinds / tree shapes with symbolic ids or flags (a bounded stand-in)
Every harness carries #[kani::unwind]; unwinding-assertion failures and time-outs
are 'undecided', never a violation.
"""
import os
import re
import shutil
import subprocess
import tempfile
import time

from . import config as C

import hashlib
# one Kani build directory per repository location: artifacts of different copies of the repository must never mix
KANI_TARGET = os.path.join(C.BUILD, "kani_" + hashlib.sha1(os.path.realpath(C.REPO).encode()).hexdigest()[:10])

# group -> dict(harnesses=[(name, kind, repo function)], quick=[names], thorough=[names])
GROUPS = {
    "positions": {
        "module": "markdown::reader::verif_kani",
        "hook_file": "crates/liwe/src/markdown/reader.rs",
        "repo": "crates/liwe/src/markdown/reader.rs (to_line_range, to_inline_range)",
        "quick": ["line_range_n1", "inline_range_n1", "line_range_n2", "inline_range_n2", "line_range_n3", "inline_range_n3",
                  "line_range_n4", "inline_range_n4", "line_range_n5", "inline_range_n5", "line_range_n6", "inline_range_n6"],
        "thorough": ["line_range_n8", "inline_range_n8", "line_range_n10", "inline_range_n10", "line_range_n12", "inline_range_n12"],
        "kind": "fixed-size n (n = digits in the harness name): table entries and offsets fully symbolic",
    },
}

GROUPS["line_starts"] = {
    "module": "markdown::reader::verif_kani",
    "hook_file": "crates/liwe/src/markdown/reader.rs",
    "repo": "crates/liwe/src/markdown/reader.rs (fn line_starts)",
    "quick": ["line_starts_n0", "line_starts_n1", "line_starts_n2", "line_starts_n3", "line_starts_n4"],
    "thorough": ["line_starts_n5", "line_starts_n6", "line_starts_n8"],
    "kind": "bounded: text of n symbolic bytes (n = digit in the harness name) forming valid UTF-8 from 1- and 2-byte characters, every arrangement of \\r, \\n, other ASCII and U+0080..U+07FF",
}
GROUPS["graph_nodes"] = {
    "module": "graph::verif_kani",
    "hook_file": "crates/liwe/src/graph.rs",
    "repo": "crates/liwe/src/graph/graph_node.rs (constructors, accessors, set_next_id, set_child_id)",
    "quick": ["node_ctor_links", "node_ctor_links_payload", "node_setters_frame"],
    "thorough": [],
    "kind": "complete: loop-free, every id / line id symbolic over its full machine domain (payload strings concrete, never inspected)",
}
GROUPS["ranges"] = {
    "module": "graph::sections_builder::verif_kani",
    "hook_file": "crates/liwe/src/graph/sections_builder.rs",
    "repo": "crates/liwe/src/graph/sections_builder.rs (fn ranges)",
    "quick": ["ranges_n0", "ranges_n1", "ranges_n2", "ranges_n3", "ranges_n4"],
    "thorough": ["ranges_n5"],
    "kind": "fixed-size n (n = digit in the harness name): positions and end fully symbolic under the contract's precondition",
}

# Verus obligation -> kani group used to look for a counterexample / to decide when Verus is undecided
TWINS = {
    "reader_stacks::MarkdownEventsReader::to_line_range": ("positions", "line_range_"),
    "reader_stacks::MarkdownEventsReader::to_inline_range": ("positions", "inline_range_"),
    "ranges::ranges": ("ranges", "ranges_"),
}
for _f in ("prev_id", "id", "next_id", "child_id", "line_id", "insertable", "is_parent_of", "is_prev_of", "set_next_id", "set_child_id",
           "new_leaf", "new_raw_leaf", "new_table", "new_ref", "new_bullet_list", "new_ordered_list", "new_quote", "new_rule",
           "new_section", "new_root", "is_root", "is_document", "is_section", "is_ref", "is_empty"):
    TWINS["arena_forest::GraphNode::" + _f] = ("graph_nodes", "node_")


def full_name(h):
    for g, G in GROUPS.items():
        if h in G["quick"] or h in G.get("thorough", []):
            return G["module"] + "::" + h
    return h


def _env():
    e = dict(os.environ)
    e["CARGO_NET_OFFLINE"] = "true"
    e["CARGO_TARGET_DIR"] = KANI_TARGET
    return e


def hooks_present(repo, groups):
    missing = []
    for g in groups:
        hf = os.path.join(repo, GROUPS[g]["hook_file"])
        try:
            txt = open(hf).read()
        except OSError:
            missing.append(GROUPS[g]["hook_file"])
            continue
        if "verif_kani" not in txt:
            missing.append(GROUPS[g]["hook_file"])
    return missing


def run_harnesses(repo, names, timeout=1500, extra=()):
    """Run the named harnesses in one cargo-kani invocation; return (results, cmd, raw)."""
    cmd = ["cargo", "kani", "-p", "liwe", "-j", "8", "--output-format", "terse", "--exact"]
    for n in names:
        cmd += ["--harness", full_name(n)]
    cmd += list(extra)
    t0 = time.time()
    try:
        p = subprocess.run(["timeout", str(timeout)] + cmd, cwd=repo, env=_env(), capture_output=True, text=True)
        out = p.stdout + "\n" + p.stderr
        rc = p.returncode
    except OSError as e:
        out, rc = str(e), 127
    wall = time.time() - t0
    res = parse(out, names)
    for r in res:
        if r["status"] == "missing":
            r["status"] = "undecided"
            if rc == 124:
                r["reason"] = "timed out after %ds" % timeout
            else:
                r["reason"] = "kani produced no verdict (exit %d): %s" % (rc, _tail_err(out))
    return res, "cd %s && CARGO_NET_OFFLINE=true CARGO_TARGET_DIR=%s %s" % (repo, KANI_TARGET, " ".join(cmd)), out, wall


def _tail_err(out):
    lines = [l for l in out.split("\n") if l.startswith("error") or "error:" in l]
    return " | ".join(lines[:3]) if lines else out[-400:].replace("\n", " ")


def parse(out, names):
    """Parse `--output-format terse` output, sequential or threaded (-j)."""
    cur = {}          # thread id -> harness short name
    found = {}
    lines = out.split("\n")
    i = 0
    active = None     # harness whose result block we are inside
    last_thread = None
    for ln in lines:
        m = re.match(r"^(?:Thread (\d+): )?Checking harness (\S+?)\.\.\.", ln)
        if m:
            t = m.group(1) or "0"
            short = m.group(2).split("::")[-1]
            cur[t] = short
            found[short] = {"name": short, "full": m.group(2), "status": "missing", "failures": [],
                            "time_s": None, "checks": None}
            if m.group(1) is None:
                active = short
            continue
        m = re.match(r"^Thread (\d+):\s*$", ln)
        if m:
            active = cur.get(m.group(1))
            continue
        if active is None or active not in found:
            continue
        r = found[active]
        m = re.match(r"^\s*\*\* (\d+) of (\d+) failed", ln)
        if m:
            r["checks"] = int(m.group(2))
            continue
        m = re.match(r"^Failed Checks: (.*)$", ln)
        if m:
            r["failures"].append({"desc": m.group(1), "loc": ""})
            continue
        m = re.match(r"^\s*File: (.*)$", ln)
        if m and r["failures"] and not r["failures"][-1]["loc"]:
            r["failures"][-1]["loc"] = m.group(1)
            continue
        m = re.match(r"^VERIFICATION:- (SUCCESSFUL|FAILED)", ln)
        if m:
            if m.group(1) == "SUCCESSFUL":
                r["status"] = "ok"
            elif any("unwinding assertion" in f["desc"] for f in r["failures"]) or not r["failures"]:
                r["status"] = "undecided"
                r["reason"] = "unwinding bound too small or no failed check reported: %s" % r["failures"][:2]
            else:
                r["status"] = "failed"
            continue
        m = re.match(r"^Verification Time: ([0-9.]+)s", ln)
        if m:
            r["time_s"] = float(m.group(1))
    return [found.get(n, {"name": n, "status": "missing", "failures": []}) for n in names]


def run_groups(groups, tier, prop):
    repo = C.REPO
    names = []
    meta = {}
    missing = hooks_present(repo, groups)
    for g in groups:
        G = GROUPS[g]
        hs = list(G["quick"]) + (list(G.get("thorough", [])) if tier == "thorough" else [])
        for h in hs:
            meta[h] = G
        names += hs
    if missing:
        return {"harnesses": [{"name": n, "status": "undecided", "reason": "hook line missing in %s" % missing,
                               "failures": []} for n in names], "cmds": [], "trusted": []}
    res, cmd, raw, wall = run_harnesses(repo, names)
    os.makedirs(C.BUILD, exist_ok=True)
    with open(os.path.join(C.BUILD, "kani_%s.log" % prop), "w") as f:
        f.write(raw)
    first_cex = None
    for r in res:
        G = meta[r["name"]]
        r["kind"] = G["kind"]
        r["repo"] = G["repo"]
        if r["status"] == "failed":
            if first_cex is None:
                r["cex"] = playback(repo, r["name"])
                first_cex = (r["name"], r["cex"])
            else:
                r["cex"] = {"found": first_cex[1].get("found", False),
                            "text": "harness %s fails as well (%s); the counterexample of %s was replayed, see its replay file\n%s"
                                    % (r["name"], "; ".join(f["desc"] for f in r["failures"][:2]), first_cex[0],
                                       first_cex[1].get("text", "")[:1500])}
    return {"harnesses": res, "cmds": [cmd], "wall_s": wall,
            "trusted": ["Kani 0.68 / CBMC 6.11; harness bounds as stated per harness (see kani/*.rs); "
                        "payload strings of nodes are concrete in bounded-shape harnesses"]}


def evidence(k):
    hs = k["harnesses"]
    return {"harnesses": len(hs), "verified": sum(1 for h in hs if h["status"] == "ok"),
            "cbmc_s": round(sum(h.get("time_s") or 0 for h in hs), 1), "wall_s": round(k.get("wall_s", 0), 1),
            "list": [{"name": h["name"], "status": h["status"], "checks": h.get("checks"), "time_s": h.get("time_s"),
                      "kind": h.get("kind")} for h in hs]}


def _harness_file(harness):
    for g, G in GROUPS.items():
        if harness in G["quick"] or harness in G.get("thorough", []):
            return G["hook_file"], os.path.join(C.VERIF, "kani", os.path.basename(_hook_target(G)))
    return None, None


def _hook_target(G):
    # the harness file a hook line includes: /verif/kani/<name>.rs ; names follow the hooked source file
    return {"crates/liwe/src/markdown/reader.rs": "reader.rs", "crates/liwe/src/graph.rs": "graph.rs",
            "crates/liwe/src/graph/sections_builder.rs": "sections_builder.rs"}[G["hook_file"]]


def playback(repo, harness):
    """Ask Kani for the concrete counterexample of a failed harness (print mode, on the tree under check), then
    replay it NATIVELY on the real code: a scratch copy of the repository whose hook lines point at a scratch copy
    of the harness files, with the generated #[test] appended, run by `cargo kani playback`.  Scratch copies and
    their build output are removed afterwards."""
    out = {"found": False, "text": ""}
    cmd = ["timeout", "900", "cargo", "kani", "-p", "liwe", "--exact", "--harness", full_name(harness), "-Z", "concrete-playback",
           "--concrete-playback=print", "--output-format", "terse"]
    p = subprocess.run(cmd, cwd=repo, env=_env(), capture_output=True, text=True)
    txt = p.stdout + p.stderr
    m = re.search(r"```\n(.*?)```", txt, re.S)
    if not m:
        out["text"] = "kani reported FAILED for %s but printed no concrete playback:\n%s" % (harness, txt[-1500:])
        return out
    test_src = m.group(1)
    mt = re.search(r"fn (kani_concrete_playback_\w+)", test_src)
    tname = mt.group(1) if mt else None
    out["found"] = True
    out["text"] = "harness %s fails; concrete values found by CBMC, as a unit test that calls the real code:\n%s\n" % (harness, test_src)
    hook_file, hfile = _harness_file(harness)
    if not tname or not hfile:
        return out
    scratch = tempfile.mkdtemp(prefix="vx_kani_replay_")
    try:
        subprocess.run(["rsync", "-a", "--exclude", "target", "--exclude", ".git", repo.rstrip("/") + "/", scratch + "/repo/"], check=True)
        shutil.copytree(os.path.join(C.VERIF, "kani"), os.path.join(scratch, "kani"))
        for g, G in GROUPS.items():
            f = os.path.join(scratch, "repo", G["hook_file"])
            t = open(f).read().replace("/verif/kani/", scratch + "/kani/")
            open(f, "w").write(t)
        with open(os.path.join(scratch, "kani", os.path.basename(hfile)), "a") as f:
            f.write("\n" + test_src + "\n")
        env = _env()
        env["CARGO_TARGET_DIR"] = os.path.join(scratch, "target")
        env["RUST_BACKTRACE"] = "0"
        pc = ["timeout", "1500", "cargo", "kani", "playback", "-Z", "concrete-playback", "-p", "liwe", "--", tname]
        r = subprocess.run(pc, cwd=os.path.join(scratch, "repo"), env=env, capture_output=True, text=True)
        log = r.stdout + r.stderr
        keep = [l for l in log.split("\n") if "panicked at" in l or "assertion" in l or "test result" in l or l.startswith("test ")
                or "index out of bounds" in l or "overflow" in l]
        if "test result: FAILED" in log:
            out["text"] += ("native replay (cargo kani playback -Z concrete-playback -p liwe -- %s, real code compiled natively): "
                            "the test FAILS as predicted:\n%s\n" % (tname, "\n".join(keep[:12])))
        else:
            out["text"] += "native replay did not reproduce the failure (exit %d):\n%s\n" % (r.returncode, "\n".join(keep[:12]) or log[-800:])
    except Exception as e:  # noqa
        out["text"] += "native replay could not be run: %s\n" % e
    finally:
        shutil.rmtree(scratch, ignore_errors=True)
    return out


def counterexample_for(obligation, tier, already=None):
    """A Kani harness that exercises the same real function may supply a concrete failing input for a Verus
    failure.  `already`: the Kani results of this check run, reused when the group was part of it."""
    tw = TWINS.get(obligation)
    if not tw:
        return None
    g, prefix = tw
    res = None
    if already is not None and any(h["name"].startswith(prefix) for h in already.get("harnesses", [])):
        res = already
    else:
        res = run_groups([g], tier, "twin")
    hs = [h for h in res["harnesses"] if h["name"].startswith(prefix)]
    for h in hs:
        if h["status"] == "failed" and h.get("cex") and h["cex"].get("found"):
            return h["cex"]
    return {"found": False, "text": "Kani harnesses on the same function (%s*) found no failing input: %s"
            % (prefix, [(h["name"], h["status"]) for h in hs])}
