"""Assemble a Verus input file from a unit template and /repo's working tree.

A unit template (contracts/<unit>.vrs) is a Verus source file.  Lines that start
with `//@` are directives; everything else (ghost definitions, lemmas, external
stubs) is copied through unchanged.  The only way repository code gets into the
output is the `//@ item` directive, which copies the named item from the
repository file byte for byte and then applies the T-rules of DESIGN.md §3.1.

    //@ item <repo file> :: <selector>
    //@ props C20 C03                 properties served by this function
    //@ ret r                         name the return value:  -> T   becomes  -> (r: T)
    //@ spec                          clauses inserted between signature and body
        requires ..., ensures ..., decreases ...
    //@ before `<start of a body line>`     ghost block inserted before that line
        proof { ... }
    //@ after `<start of a body line>`      ... after the statement starting on that line
    //@ loop <n> `<loop header text>`       invariant/decreases for the n-th loop of the body
    //@ noop-closure `<param type>` `<ensures>`   T2 for `|_| {}` literals
    //@ end

Selectors:  struct X | enum X | type X | const X | fn f | impl X :: fn f |
            impl Tr for X :: fn f

Template-level directives:
    //@ unit-props C20 C04            default properties for every function of the unit
    //@ fn-props <fn name> : C20      properties of a template-only proof fn / lemma
"""
import os
import re

from . import rustscan as rs
from .rustscan import ScanError


class LostAnchor(Exception):
    """A directive could not be matched against the repository text.  The
    check must answer 'undecided' (exit 2), never VIOLATION."""


class Edit:
    __slots__ = ("start", "end", "text", "origin", "rule", "seq")

    def __init__(self, start, end, text, origin, rule, seq=0):
        self.start, self.end, self.text, self.origin, self.rule, self.seq = start, end, text, origin, rule, seq


_file_cache = {}


def load(repo, rel):
    path = os.path.join(repo, rel)
    key = path
    st = os.stat(path)
    c = _file_cache.get(key)
    if c and c[0] == st.st_mtime_ns:
        return c[1], c[2]
    with open(path, encoding="utf-8") as f:
        src = f.read()
    m = rs.mask(src)
    _file_cache[key] = (st.st_mtime_ns, src, m)
    return src, m


def line_of(src, off):
    return src.count("\n", 0, off) + 1


def find_item(src, m, selector):
    """Return (item, container_item_or_None)."""
    parts = [p.strip() for p in selector.split("::")]
    # re-join path-like pieces that are not ' :: fn'
    if len(parts) == 1:
        kind, name = parts[0].split(None, 1)
        found = [it for it in rs.items(src, m, 0, len(src))
                 if it.kind == kind and it.name == name.strip() and not it.cfg_test]
        if len(found) != 1:
            raise LostAnchor("selector `%s`: %d matches" % (selector, len(found)))
        return found[0], None
    if len(parts) == 2 and parts[0].startswith("trait"):
        tname = parts[0][5:].strip()
        kind, name = parts[1].split(None, 1)
        name = name.strip()
        found = []
        for it in rs.items(src, m, 0, len(src)):
            if it.kind != "trait" or it.name != tname or it.cfg_test:
                continue
            for sub in rs.items(src, m, it.body_open + 1, it.end - 1):
                if sub.kind == kind and sub.name == name:
                    found.append((sub, it))
        if len(found) != 1:
            raise LostAnchor("selector `%s`: %d matches" % (selector, len(found)))
        return found[0]
    if len(parts) == 2 and parts[0].startswith("impl"):
        head = parts[0][4:].strip()
        trait = None
        mm = re.match(r"(.+)\sfor\s(.+)", head)
        if mm:
            trait, ty = mm.group(1).strip(), mm.group(2).strip()
        else:
            ty = head
        kind, name = parts[1].split(None, 1)
        name = name.strip()
        found = []
        for it in rs.items(src, m, 0, len(src)):
            if it.kind != "impl" or it.cfg_test:
                continue
            if it.impl_type != ty or it.impl_trait != trait:
                continue
            for sub in rs.items(src, m, it.body_open + 1, it.end - 1):
                if sub.kind == kind and sub.name == name:
                    found.append((sub, it))
        if len(found) != 1:
            raise LostAnchor("selector `%s`: %d matches" % (selector, len(found)))
        return found[0]
    raise LostAnchor("selector `%s` not understood" % selector)


DERIVE_KEEP_DEFAULT = ("Debug", "PartialEq", "Eq", "Copy", "Default", "Hash", "PartialOrd", "Ord")


class ItemOut:
    def __init__(self):
        self.file = None
        self.selector = None
        self.kind = None
        self.name = None
        self.qualname = None
        self.repo_lines = None
        self.props = []
        self.rules = []       # (rule, repo line, description)
        self.has_spec = False
        self.segments = []    # (text, origin)
        self.trusted = []


def _norm(s):
    return re.sub(r"\s+", " ", s).strip()


_T3 = re.compile(r"\.\s*map\s*\(\s*\|\s*([A-Za-z_][A-Za-z0-9_]*)\s*\|")


def t3_string(t):
    """Rewrite every statement-position `E.map(|x| S);` inside the text t (innermost first) into
    `if let Some(x) = E { S; }`.  Returns (new text, number of rewrites)."""
    n = 0
    skip = set()
    while True:
        m = rs.mask(t)
        cands = [mm for mm in _T3.finditer(m) if mm.start() not in skip]
        if not cands:
            return t, n
        mm = cands[-1]
        dot = mm.start()
        par = m.index("(", dot)
        try:
            close = rs.match_close(m, par)
        except rs.ScanError:
            skip.add(dot)
            continue
        k = close + 1
        while k < len(m) and m[k].isspace():
            k += 1
        if k >= len(m) or m[k] != ";":
            skip.add(dot)
            continue
        s0 = dot
        depth = 0
        while s0 > 0:
            c = m[s0 - 1]
            if c in ")]}":
                depth += 1
                if c == "}" and depth == 1:
                    break
            elif c in "([{":
                if depth == 0:
                    break
                depth -= 1
            elif c == ";" and depth == 0:
                break
            s0 -= 1
        while s0 < dot and m[s0].isspace():
            s0 += 1
        recv = t[s0:dot].rstrip()
        if re.match(r"^(let|return)\b", recv):
            skip.add(dot)
            continue
        inner = t[mm.end():close].strip()
        rep = "if let Some(%s) = %s { %s; }" % (mm.group(1), _norm(recv), inner)
        t = t[:s0] + rep + t[k + 1:]
        n += 1


def expand_item(repo, relfile, selector, body, tmpl_name, tmpl_line, opts):
    """body: list of (directive, arg, [lines], tmpl_line).  Returns ItemOut."""
    src, m = load(repo, relfile)
    it, cont = find_item(src, m, selector)
    out = ItemOut()
    out.file, out.selector, out.kind, out.name = relfile, selector, it.kind, it.name
    out.qualname = ((cont.impl_type or cont.name) + "::" + it.name) if cont is not None else it.name
    out.repo_lines = (line_of(src, it.start), line_of(src, it.end - 1))
    edits = []
    seq = [0]

    def add(start, end, text, origin, rule, desc=None):
        seq[0] += 1
        edits.append(Edit(start, end, text, origin, rule, seq[0]))
        if rule:
            out.rules.append((rule, "%s:%d" % (relfile, line_of(src, start)), desc or ""))

    lo, hi = it.start, it.end
    # ---- T1 visibility
    if not any(b[0] == "keep-pub" for b in body):
        for mm in re.finditer(r"\bpub\b(\s*\([^)]*\))?\s*", m[lo:hi]):
            add(lo + mm.start(), lo + mm.end(), "", None, "T1", "visibility removed")
    # ---- T4 derive(Clone)
    clone_needed = False
    if it.kind in ("struct", "enum"):
        for mm in re.finditer(r"#\s*\[\s*derive\s*\(([^)]*)\)\s*\]", m[lo:it.head]):
            names = [x.strip() for x in mm.group(1).split(",") if x.strip()]
            keep = opts.get("derive_keep", DERIVE_KEEP_DEFAULT)
            new = [x for x in names if x in keep or (x == "Clone" and "Copy" in names)]
            if "Clone" in names and "Copy" not in names:
                clone_needed = True
            dropped = [x for x in names if x not in new]
            if dropped:
                rep = ("#[derive(%s)]" % ", ".join(new)) if new else ""
                add(lo + mm.start(), lo + mm.end(), rep, None, "T4",
                    "derive: dropped %s" % ",".join(dropped))
    fp = None
    if it.kind == "fn":
        fp = rs.fn_parts(src, m, it)
        if fp.body_open is None:
            raise LostAnchor("%s has no body" % selector)
        b0, b1 = fp.body_open + 1, fp.body_close
        # ---- T3 statement-position Option::map (nested occurrences are rewritten inside the replacement text)
        closure_specs = [b for b in body if b[0] == "closure"]
        covered_until = -1
        for mm in _T3.finditer(m[b0:b1]):
            dot = b0 + mm.start()
            if dot < covered_until:
                continue
            par = m.index("(", dot)
            close = rs.match_close(m, par)
            k = close + 1
            while k < b1 and m[k].isspace():
                k += 1
            if k >= b1 or m[k] != ";":
                continue  # result is used: not statement position
            s = dot
            depth = 0
            while s > b0:
                c = m[s - 1]
                if c in ")]}":
                    depth += 1
                    if c == "}" and depth == 1:
                        break
                elif c in "([{":
                    if depth == 0:
                        break
                    depth -= 1
                elif c == ";" and depth == 0:
                    break
                s -= 1
            while s < dot and m[s].isspace():
                s += 1
            if re.match(r"^(let|return)\b", src[s:dot]):
                continue
            rep, nrw = t3_string(src[s:k + 1])
            for (_d, (chead, cnew), _l, _tl) in closure_specs:
                rep = rep.replace(chead, cnew)
            covered_until = k + 1
            add(s, k + 1, rep, ("repo", relfile, line_of(src, s)), "T3",
                "`E.map(|%s| S);` -> if let (%d rewrite%s incl. nested)" % (mm.group(1), nrw, "" if nrw == 1 else "s"))
        # ---- T8 `for (i, &x) in V.iter().enumerate() {` -> `for i in 0..V.len() { let x = V[i];`
        for mm in re.finditer(r"\bfor\s*\(\s*([A-Za-z_][A-Za-z0-9_]*)\s*,\s*&\s*([A-Za-z_][A-Za-z0-9_]*)\s*\)\s*in\s+([A-Za-z_][A-Za-z0-9_.]*?)\s*\.\s*iter\s*\(\s*\)\s*\.\s*enumerate\s*\(\s*\)\s*\{", m[b0:b1]):
            i_, x_, v_ = mm.group(1), mm.group(2), mm.group(3)
            s_, e_ = b0 + mm.start(), b0 + mm.end()
            add(s_, e_ - 1, "for %s in 0..%s.len() " % (i_, v_), ("repo", relfile, line_of(src, s_)), "T8",
                "`for (%s, &%s) in %s.iter().enumerate()` -> index loop" % (i_, x_, v_))
            add(e_, e_, " let %s = %s[%s];" % (x_, v_, i_), ("repo", relfile, line_of(src, s_)), None)
        # ---- T2 closures with wildcard binder
        noop = [b for b in body if b[0] == "noop-closure"]
        for mm in re.finditer(r"\|\s*_\s*\|(\s*\{\s*\})?", m[b0:b1]):
            s, e = b0 + mm.start(), b0 + mm.end()
            if mm.group(1) and noop:
                ty, ens = noop[0][1]
                add(s, e, "|_w: %s| ensures %s {}" % (ty, ens), ("repo", relfile, line_of(src, s)),
                    "T2", "`|_| {}` -> typed binder + ensures (specification only)")
            else:
                add(s, s + (mm.end() - mm.start() - (len(mm.group(1)) if mm.group(1) else 0)), "|_w|",
                    ("repo", relfile, line_of(src, s)), "T2", "`|_|` -> `|_w|`")
    # ---- T7 splices
    for (d, arg, lines, tl) in body:
        text = "\n".join(lines)
        origin = ("tmpl", tmpl_name, tl + 1)
        origin_nl = ("tmpl", tmpl_name, tl)      # for inserted text that starts with a newline
        if d == "props":
            out.props = arg.split()
        elif d == "ret":
            if fp is None or fp.ret_start is None:
                raise LostAnchor("%s: `ret` but no return type" % selector)
            add(fp.ret_start, fp.ret_end, "(%s: %s)" % (arg.strip(), src[fp.ret_start:fp.ret_end]),
                ("repo", relfile, line_of(src, fp.ret_start)), "T7r", "return value named")
        elif d == "spec":
            if fp is None:
                raise LostAnchor("%s: spec on non-fn" % selector)
            out.has_spec = True
            out.spec_text = text
            add(fp.body_open, fp.body_open, "\n" + text + "\n", origin_nl, None)
        elif d == "start":
            if fp is None:
                raise LostAnchor("%s: start on non-fn" % selector)
            add(fp.body_open + 1, fp.body_open + 1, "\n" + text + "\n", origin_nl, None)
        elif d in ("before", "after"):
            pos = None
            errs = []
            for ai, (akind, aval) in enumerate(arg):
                try:
                    if akind == "text":
                        pos = _anchor(src, m, fp, aval, d, selector)
                    elif akind == "stmt":
                        pos = _stmt_anchor(src, m, fp, aval, d, selector, "")
                    else:
                        pos = _end_anchor(src, m, fp)
                except LostAnchor as e:
                    errs.append(str(e))
                    continue
                if ai > 0:
                    out.rules.append(("T7o", "%s:%d" % (relfile, line_of(src, pos)),
                                      "primary anchor lost; alternative #%d (%s %s) used" % (ai + 1, akind, aval)))
                break
            if pos is None:
                raise LostAnchor("; ".join(errs))
            add(pos, pos, ("\n" if d == "after" else "") + text + "\n", origin_nl if d == "after" else origin, None)
        elif d == "loop":
            n, hdr, itname = arg
            loops = list(rs.loop_headers(m, fp.body_open + 1, fp.body_close))
            if n < 1 or n > len(loops):
                # the loop is gone (e.g. moved into a helper): its invariant has nothing to attach to; the function is
                # still verified against its contract, without that hint
                out.rules.append(("T7o", "%s:%d" % (relfile, out.repo_lines[0]),
                                  "loop %d not found (%d loops): invariant dropped" % (n, len(loops))))
                continue
            s, b = loops[n - 1]
            if hdr and not _norm(src[s:b]).startswith(_norm(hdr)):
                raise LostAnchor("%s: loop %d header is `%s`, expected `%s`" % (selector, n, _norm(src[s:b]), hdr))
            add(b, b, "\n" + text + "\n", origin_nl, None)
            if itname and (itname.startswith("index:") or itname.startswith("ownedindex:")):
                owned_elem = itname.startswith("ownedindex:")
                # T8b: `for X in E {` (E an owned Vec)  ->  `let __seq_i = E; for i in 0..__seq_i.len() { let X = &__seq_i[i];`
                iv = itname.split(":", 1)[1]
                mh = re.match(r"for\s+([A-Za-z_][A-Za-z0-9_]*)\s+in\s+(.*?)\s*$", src[s:b], re.S)
                if not mh:
                    raise LostAnchor("%s: loop %d is not a simple `for x in E` loop" % (selector, n))
                x_, e_ = mh.group(1), mh.group(2)
                mi2 = re.match(r"^(.*?)\s*\.\s*iter\s*\(\s*\)$", _norm(e_))
                if mi2:
                    # T8c: `for X in E.iter() {`  ->  `for i in 0..E.len() { let X = &E[i];`
                    ev = mi2.group(1)
                    add(s, b, "for %s in 0..%s.len() " % (iv, ev),
                        ("repo", relfile, line_of(src, s)), "T8c", "`for %s in %s.iter()` -> index loop" % (x_, ev))
                    add(b + 1, b + 1, " let %s = &%s[%s];" % (x_, ev, iv), ("repo", relfile, line_of(src, s)), None)
                else:
                    add(s, b, "let __seq_%s = %s; for %s in 0..__seq_%s.len() " % (iv, _norm(e_), iv, iv),
                        ("repo", relfile, line_of(src, s)), "T8b", "`for %s in <owned Vec>` -> index loop over a borrowed element" % x_)
                    # (`owned`: the loop variable is used by value - the element is cloned, as the consuming loop moved it)
                    add(b + 1, b + 1, (" let %s = __seq_%s[%s].clone();" if owned_elem else " let %s = &__seq_%s[%s];") % (x_, iv, iv),
                        ("repo", relfile, line_of(src, s)), None)
            elif itname:
                # T7i: name the ghost iterator of a for loop:  `for x in E {`  ->  `for x in <name>: E {`
                mi = re.search(r"\bin\s+", m[s:b])
                if not mi or not m[s:b].lstrip().startswith("for"):
                    raise LostAnchor("%s: loop %d is not a for loop" % (selector, n))
                add(s + mi.end(), s + mi.end(), "%s: " % itname, ("repo", relfile, line_of(src, s)), "T7i",
                    "ghost iterator of the for loop named `%s`" % itname)
        elif d in ("find-map", "find-range"):
            # T12b (find-range): a tail expression `R.into_iter().find_map(|i| B)` / `R.into_iter().find(|i| B)` (R a
            #   Range<usize>) becomes the counting loop that find_map / find over a range is:
            #   { let <i>_r = R; let mut <i>: usize = <i>_r.start;
            #     while <i> < <i>_r.end <invariant from the template> { let i = <i>; let <i>_o = B; if <i>_o.is_some() { return <i>_o; } <i> += 1; }  None }
            #   (find: `let i = &<i>; if B { return Some(<i>); }`)
            # T12: a tail expression `E.iter().find_map(|x| B)` (E an owned Vec) becomes the loop that find_map is:
            #   { let <i>_v = E; let mut <i>: usize = 0;
            #     while <i> < <i>_v.len() <invariant from the template> { let x = &<i>_v[<i>]; let <i>_o = B;
            #       if <i>_o.is_some() { return <i>_o; } <i> += 1; }  None }
            n, iv = arg
            is_range = d == "find-range"
            if is_range:
                occ = [mm for mm in re.finditer(r"\.\s*into_iter\s*\(\s*\)\s*\.\s*(find_map|find)\s*\(\s*\|\s*([A-Za-z_][A-Za-z0-9_]*)\s*\|", m[fp.body_open:fp.body_close])]
            else:
                occ = [mm for mm in re.finditer(r"\.\s*iter\s*\(\s*\)\s*\.\s*(find_map)\s*\(\s*\|\s*([A-Za-z_][A-Za-z0-9_]*)\s*\|", m[fp.body_open:fp.body_close])]
            if n < 1 or n > len(occ):
                raise LostAnchor("%s: %s %d not found (%d occurrences of `.%s().find_map(|x|`)" % (selector, d, n, len(occ), "into_iter" if is_range else "iter"))
            mm = occ[n - 1]
            adapter = mm.group(1)
            dot = fp.body_open + mm.start()
            par = m.index("(", fp.body_open + mm.start(1))
            close = rs.match_close(m, par)
            k = close + 1
            while k < fp.body_close and m[k].isspace():
                k += 1
            if k != fp.body_close:
                raise LostAnchor("%s: find-map %d is not the tail expression of the function" % (selector, n))
            s0 = dot
            depth = 0
            while s0 > fp.body_open + 1:
                c = m[s0 - 1]
                if c in ")]}":
                    depth += 1
                    if c == "}" and depth == 1:
                        break
                elif c in "([{":
                    if depth == 0:
                        break
                    depth -= 1
                elif c == ";" and depth == 0:
                    break
                s0 -= 1
            while s0 < dot and m[s0].isspace():
                s0 += 1
            recv = _norm(src[s0:dot])
            x_ = mm.group(2)
            inner = src[fp.body_open + mm.end():close].strip()
            here = ("repo", relfile, line_of(src, s0))
            if is_range:
                add(s0, s0, "{ let %s_r = %s; let mut %s: usize = %s_r.start;\n        while %s < %s_r.end\n" % (iv, recv, iv, iv, iv, iv), here, "T12b",
                    "tail `%s.into_iter().%s(|%s| ..)` -> the counting loop that %s over a range is (first hit returned)" % (recv, adapter, x_, adapter))
                add(s0, s0, text + "\n", origin, None)
                if adapter == "find_map":
                    add(s0, close + 1, "        { let %s = %s; let %s_o = %s; if %s_o.is_some() { return %s_o; } %s += 1; }\n        None }"
                        % (x_, iv, iv, inner, iv, iv, iv), here, None)
                else:
                    add(s0, close + 1, "        { let %s = &%s; if %s { return Some(%s); } %s += 1; }\n        None }"
                        % (x_, iv, inner, iv, iv), here, None)
                continue
            add(s0, s0, "{ let %s_v = %s; let mut %s: usize = 0;\n        while %s < %s_v.len()\n" % (iv, recv, iv, iv, iv), here, "T12",
                "tail `%s.iter().find_map(|%s| ..)` -> the index loop that find_map is (first Some returned)" % (recv, x_))
            add(s0, s0, text + "\n", origin, None)
            add(s0, close + 1, "        { let %s = &%s_v[%s]; let %s_o = %s; if %s_o.is_some() { return %s_o; } %s += 1; }\n        None }"
                % (x_, iv, iv, iv, inner, iv, iv, iv), here, None)
        elif d == "noop-closure":
            pass
        elif d == "closure":
            # T2c: a closure literal gets typed binders and a requires/ensures clause (specification only).  Occurrences
            # inside a T3 replacement are handled there; the remaining ones here.
            chead, cnew = arg
            pos0 = lo
            while True:
                k = src.find(chead, pos0, hi)
                if k < 0:
                    break
                add(k, k + len(chead), cnew, ("repo", relfile, line_of(src, k)), "T2c",
                    "closure `%s` gets typed binders and a contract" % chead)
                pos0 = k + len(chead)
        elif d in ("keep-pub", "derived-ord"):
            pass
        elif d == "positions-chain":
            # T15: the statement `let NAME = E.iter().positions(|x| P).filter(|&y| F1)...collect_vec();` becomes the loop that
            # the chain is (itertools::positions yields the indices of the elements that satisfy P, filter keeps those that
            # satisfy F, collect_vec pushes them in order):
            #   let mut NAME: Vec<usize> = Vec::new(); let mut <i>: usize = 0;
            #   while <i> < E.len() <invariant from the template>
            #   { let x = &E[<i>]; let <i>_c0 = P; if <i>_c0 { let y = <i>; let <i>_c1 = F1; if <i>_c1 { .. NAME.push(<i>); .. } } <i> += 1; }
            # The closure bodies are the repo's text, unchanged.
            if fp is None:
                raise LostAnchor("%s: positions-chain on non-fn" % selector)
            prefix, iv = arg
            pos = _anchor(src, m, fp, prefix, "before", selector)
            while pos < fp.body_close and m[pos].isspace():
                pos += 1
            end = rs.statement_end(m, pos, fp.body_close)
            mh = re.match(r"let\s+([A-Za-z_][A-Za-z0-9_]*)\s*=\s*(.+?)\s*\.\s*iter\s*\(\s*\)", m[pos:end], re.S)
            if not mh:
                raise LostAnchor("%s: positions-chain: statement `%s ..` is not `let x = E.iter()..`" % (selector, prefix))
            name_, recv = mh.group(1), _norm(src[pos + mh.start(2):pos + mh.end(2)])
            # the adapters, in order: [skip(A)] [take(B)] positions(|x| P) {filter(|&y| F) | map(|y| G)}* collect_vec()
            skip_e = take_e = None
            stages = []          # (kind, binder, body)
            k = pos + mh.end()
            while True:
                mn = re.match(r"\s*\.\s*([A-Za-z_][A-Za-z0-9_]*)\s*\(", m[k:end])
                if not mn:
                    raise LostAnchor("%s: positions-chain: chain does not end in .collect_vec()" % selector)
                ad = mn.group(1)
                par = k + mn.end() - 1
                close = rs.match_close(m, par)
                argt = src[par + 1:close]
                if ad == "collect_vec":
                    if argt.strip() or not re.match(r"\s*;\s*$", m[close + 1:end]) or not stages:
                        raise LostAnchor("%s: positions-chain: unsupported tail after collect_vec / no positions stage" % selector)
                    break
                if ad in ("skip", "take") and not stages and ((ad == "skip" and skip_e is None and take_e is None) or (ad == "take" and take_e is None)):
                    if ad == "skip":
                        skip_e = argt.strip()
                    else:
                        take_e = argt.strip()
                elif ad == "positions" and not stages:
                    mc = re.match(r"\s*\|\s*([A-Za-z_][A-Za-z0-9_]*)\s*\|\s*(.*)$", argt, re.S)
                    if not mc or not re.match(r"\s*\|\s*[A-Za-z_][A-Za-z0-9_]*\s*\|", m[par + 1:close]):
                        raise LostAnchor("%s: positions-chain: positions() does not take a closure literal `|x| ..`" % selector)
                    stages.append(("positions", mc.group(1), mc.group(2).strip()))
                elif ad in ("filter", "map") and stages:
                    mc = re.match(r"\s*\|\s*(&?)\s*([A-Za-z_][A-Za-z0-9_]*)\s*\|\s*(.*)$", argt, re.S)
                    if not mc or not re.match(r"\s*\|\s*&?\s*[A-Za-z_][A-Za-z0-9_]*\s*\|", m[par + 1:close]) \
                            or (mc.group(1) == "&") != (ad == "filter"):
                        raise LostAnchor("%s: positions-chain: %s() does not take a closure literal `%s`" % (selector, ad, "|&x| .." if ad == "filter" else "|x| .."))
                    stages.append((ad, mc.group(2), mc.group(3).strip()))
                else:
                    raise LostAnchor("%s: positions-chain: unsupported adapter `.%s(` in the chain" % (selector, ad))
                k = close + 1
            here = ("repo", relfile, line_of(src, pos))
            plain = skip_e is None and take_e is None and all(kd != "map" for (kd, _x, _b) in stages)
            # template text: the loop invariant, then (optionally, after a line `// on-push:`) ghost text placed right after the push;
            # `<i>_prev` names the vector's view before the push
            inv_text, push_text = text, ""
            if "// on-push:" in text:
                inv_text, push_text = text.split("// on-push:", 1)
                push_text = push_text.split("\n", 1)[1] if "\n" in push_text else ""
            desc = "statement `%s ..` (lines %d-%d): %spositions/filter%s/collect_vec chain -> the index loop it is (closure bodies unchanged)" % (
                prefix, line_of(src, pos), line_of(src, end - 1), "" if plain else "skip/take/", "" if plain else "/map")
            if plain:
                add(pos, pos, "let mut %s: Vec<usize> = Vec::new(); let mut %s: usize = 0;\n        while %s < %s.len()\n" % (name_, iv, iv, recv),
                    here, "T15", desc)
            else:
                # skip(A): the first element looked at is min(A, len); take(B): at most B elements from there; positions counts from there
                hdr = "let mut %s: Vec<usize> = Vec::new(); let %s_n: usize = %s.len();" % (name_, iv, recv)
                hdr += " let %s_a: usize = %s; let %s_lo: usize = if %s_a <= %s_n { %s_a } else { %s_n };" % (iv, skip_e or "0", iv, iv, iv, iv, iv)
                if take_e is not None:
                    hdr += " let %s_b: usize = %s; let %s_hi: usize = if %s_b <= %s_n - %s_lo { %s_lo + %s_b } else { %s_n };" % (iv, take_e, iv, iv, iv, iv, iv, iv, iv)
                else:
                    hdr += " let %s_hi: usize = %s_n;" % (iv, iv)
                add(pos, pos, hdr + " let mut %s: usize = %s_lo;\n        while %s < %s_hi\n" % (iv, iv, iv, iv), here, "T15", desc)
            if not plain:
                # facts about the generated bounds that any invariant of this loop needs (the rule's own, not the template's)
                inv_text = re.sub(r"\binvariant\b", "invariant\n                %s_lo <= %s, %s <= %s_hi, %s_hi <= %s_n, %s_n == %s@.len(),"
                                  % (iv, iv, iv, iv, iv, iv, iv, recv), inv_text, count=1)
            add(pos, pos, inv_text.rstrip("\n") + "\n", origin, None)
            parts = ["        { let %s = &%s[%s]; let %s_c0 = %s; if %s_c0 {" % (stages[0][1], recv, iv, iv, stages[0][2], iv)]
            cur = iv if plain else "%s_v0" % iv
            if not plain:
                parts.append(" let %s_v0: usize = %s - %s_lo;" % (iv, iv, iv))
            nopen = 1
            for si, (kd, x_, b_) in enumerate(stages[1:], 1):
                if kd == "filter":
                    parts.append(" let %s = %s; let %s_c%d = %s; if %s_c%d {" % (x_, cur, iv, si, b_, iv, si))
                    nopen += 1
                else:
                    parts.append(" let %s_v%d: usize = { let %s = %s; %s };" % (iv, si, x_, cur, b_))
                    cur = "%s_v%d" % (iv, si)
            parts.append(" let ghost %s_prev = %s@; %s.push(%s);\n%s\n" % (iv, name_, name_, cur, push_text))
            parts.append("}" * nopen)
            parts.append(" %s += 1; }" % iv)
            add(pos, end, "".join(parts), here, None)
        elif d == "replace-stmt":
            # T14: one statement (named by the start of its text) is replaced by a call of a function with an ASSUMED
            # contract - for iterator chains outside the verifier's reach in the middle of an otherwise verified
            # function.  The statement itself is then not verified; the rest of the function is.
            if fp is None:
                raise LostAnchor("%s: replace-stmt on non-fn" % selector)
            prefix, repl = arg
            pos = _anchor(src, m, fp, prefix, "before", selector)
            end = rs.statement_end(m, pos, fp.body_close)
            add(pos, end, repl, ("repo", relfile, line_of(src, pos)), "T14",
                "statement `%s ..` (lines %d-%d) replaced by `%s` (assumed contract; the statement is not verified)"
                % (prefix, line_of(src, pos), line_of(src, end - 1), repl))
            out.trusted.append("T14: %s:%d-%d statement `%s ..` replaced by `%s`" % (relfile, line_of(src, pos), line_of(src, end - 1), prefix, repl))
        elif d == "iter-collect":
            # T16: every `P.iter().collect()` in the function (P a field path) becomes `vec_refs(&P)`, a helper of the template
            # with the TRUSTED std specification "the references to P's elements, in order"
            if fp is None:
                raise LostAnchor("%s: iter-collect on non-fn" % selector)
            cnt = 0
            for mm in re.finditer(r"\b([A-Za-z_][A-Za-z0-9_]*(?:\s*\.\s*[A-Za-z_][A-Za-z0-9_]*)*)\s*\.\s*iter\s*\(\s*\)\s*\.\s*collect\s*\(\s*\)", m[fp.body_open:fp.body_close]):
                s_, e_ = fp.body_open + mm.start(), fp.body_open + mm.end()
                add(s_, e_, "%s(&%s)" % (arg, _norm(mm.group(1)).replace(" ", "")), ("repo", relfile, line_of(src, s_)), "T16",
                    "`%s.iter().collect()` -> `%s(&%s)` (trusted std specification: references to the elements, in order)" % (_norm(mm.group(1)), arg, _norm(mm.group(1))))
                cnt += 1
            if cnt == 0:
                raise LostAnchor("%s: iter-collect: no `.iter().collect()` in the function" % selector)
        elif d == "attr":
            # a verifier attribute in front of the item (specification only)
            add(it.head, it.head, arg + "\n", origin, None)
        elif d == "rename":
            a_, b_ = arg
            for mm in re.finditer(r"\b%s\b" % re.escape(a_), m[lo:hi]):
                add(lo + mm.start(), lo + mm.end(), b_, ("repo", relfile, line_of(src, lo + mm.start())), "T10",
                    ("identifier %s renamed to %s (name clash in the single-file unit)" % (a_, b_)) if "::" not in a_ else
                    ("call path %s replaced by %s (trusted specification of a derived impl)" % (a_, b_)))
        elif d == "drop-arm":
            if fp is None:
                raise LostAnchor("%s: drop-arm on non-fn" % selector)
            pos = _anchor(src, m, fp, arg, "before", selector)
            arrow = m.find("=>", pos, fp.body_close)
            if arrow < 0:
                raise LostAnchor("%s: drop-arm `%s`: no =>" % (selector, arg))
            k = arrow + 2
            while k < fp.body_close and m[k].isspace():
                k += 1
            if m[k] != "{":
                raise LostAnchor("%s: drop-arm `%s`: arm body is not a block" % (selector, arg))
            e = rs.match_close(m, k)
            add(k, e + 1, "{ assert(false); /* arm body dropped by the extraction (T9) */ }",
                ("repo", relfile, line_of(src, k)), "T9",
                "match arm `%s` (lines %d-%d) is NOT verified; the contract must make it unreachable" %
                (arg, line_of(src, k), line_of(src, e)))
        else:
            raise LostAnchor("unknown directive %s" % d)
    # ---- apply
    edits.sort(key=lambda e: (e.start, e.end != e.start, e.seq))
    pos = lo
    segs = []
    for e in edits:
        if e.start < pos:
            if e.rule == "T1" or e.end <= pos:
                continue      # lies inside a region already replaced (e.g. a dropped arm)
            raise LostAnchor("%s: overlapping rewrites at %s:%d" % (selector, relfile, line_of(src, e.start)))
        if e.start > pos:
            segs.append((src[pos:e.start], ("repo", relfile, line_of(src, pos))))
        if e.text:
            segs.append((e.text, e.origin or ("repo", relfile, line_of(src, e.start))))
        pos = e.end
    if pos < hi:
        segs.append((src[pos:hi], ("repo", relfile, line_of(src, pos))))
    out.segments = segs
    if clone_needed and opts.get("clone_impl", True):
        tname = it.name
        for (d, arg, lines, tl) in body:
            if d == "rename" and arg[0] == tname:
                tname = arg[1]
        out.segments.append((
            "\nimpl Clone for %s {\n    #[verifier::external_body]\n    fn clone(&self) -> (r: Self) ensures r == *self { unimplemented!() }\n}\n" % tname,
            ("gen", "T4", 0)))
        out.trusted.append("T4: derived Clone of %s assumed to return an equal value" % tname)
        out.rules.append(("T4", "%s:%d" % (relfile, out.repo_lines[0]), "trusted Clone impl for %s" % tname))
    if any(b[0] == "derived-ord" for b in body):
        # T4b: the specification of #[derive(PartialOrd)] is GENERATED from the struct as it stands in the repository:
        # lexicographic over the fields in declaration order (all fields must be unsigned integers).  Swapping two
        # fields therefore changes the specification the same way it changes the derived code.
        if it.kind != "struct" or not re.search(r"derive\s*\([^)]*\bPartialOrd\b", m[lo:it.head] if it.head > lo else src[lo:hi]):
            raise LostAnchor("%s: derived-ord needs a struct that derives PartialOrd" % selector)
        bo = m.index("{", it.head)
        bc = rs.match_close(m, bo)
        fields = []
        for part in src[bo + 1:bc].split(","):
            part = re.sub(r"\bpub\b(\s*\([^)]*\))?", "", part).strip()
            if not part:
                continue
            mf = re.match(r"^([A-Za-z_][A-Za-z0-9_]*)\s*:\s*(usize|u8|u16|u32|u64|u128)$", part)
            if not mf:
                raise LostAnchor("%s: derived-ord: field `%s` is not an unsigned integer field" % (selector, part))
            fields.append(mf.group(1))
        chain = "Some(core::cmp::Ordering::Equal)"
        for f_ in reversed(fields):
            chain = ("if self.%s != other.%s { if self.%s < other.%s { Some(core::cmp::Ordering::Less) } else { Some(core::cmp::Ordering::Greater) } } else { %s }"
                     % (f_, f_, f_, f_, chain))
        out.segments.append((
            "\nimpl vstd::std_specs::cmp::PartialOrdSpecImpl for %s {\n    open spec fn obeys_partial_cmp_spec() -> bool { true }\n"
            "    open spec fn partial_cmp_spec(&self, other: &%s) -> Option<core::cmp::Ordering> {\n        %s\n    }\n}\n" % (it.name, it.name, chain),
            ("gen", "T4b", 0)))
        out.trusted.append("T4b: derived PartialOrd of %s assumed lexicographic over its fields in declaration order (%s)" % (it.name, ", ".join(fields)))
        out.rules.append(("T4b", "%s:%d" % (relfile, out.repo_lines[0]), "specification of derived PartialOrd generated for %s (%s)" % (it.name, ", ".join(fields))))
    return out


def _anchor(src, m, fp, text, mode, selector):
    """text: start of a statement (whitespace-normalised, may span lines), optionally
    prefixed by `<n>:` to pick the n-th matching line."""
    if fp is None:
        raise LostAnchor("%s: anchor on non-fn" % selector)
    nth = None
    mm = re.match(r"^(\d+):(.*)$", text)
    if mm:
        nth, text = int(mm.group(1)), mm.group(2)
    want = _norm(text)
    b0, b1 = fp.body_open + 1, fp.body_close
    hits = []
    off = b0
    for line in src[b0:b1].split("\n"):
        first = off + (len(line) - len(line.lstrip()))
        if want and line.strip() and not m[first].isspace():
            window = _norm(src[first:min(b1, first + 4 * len(want) + 200)])
            if window.startswith(want):
                hits.append((off, first))
        off += len(line) + 1
    if nth is not None:
        if nth < 1 or nth > len(hits):
            raise LostAnchor("%s: anchor `%s` has %d matches, wanted #%d" % (selector, text, len(hits), nth))
        hits = [hits[nth - 1]]
    if len(hits) != 1:
        raise LostAnchor("%s: anchor `%s` matches %d lines" % (selector, text, len(hits)))
    line_start, first = hits[0]
    if mode == "before":
        return line_start
    return rs.statement_end(m, first, b1)


def top_statements(m, fp):
    """[(start, end)] of the top-level statements of a fn body (masked text)."""
    b0, b1 = fp.body_open + 1, fp.body_close
    out = []
    k = b0
    while True:
        while k < b1 and m[k].isspace():
            k += 1
        if k >= b1:
            break
        e = rs.statement_end(m, k, b1)
        out.append((k, e))
        k = e
    return out


def _stmt_anchor(src, m, fp, fallback, mode, selector, atext):
    k, n = fallback
    st = top_statements(m, fp)
    if len(st) != n or k < 1 or k > n:
        raise LostAnchor("%s: anchor `%s` lost and the body has %d top-level statements (expected %d)" %
                         (selector, atext, len(st), n))
    s0, e0 = st[k - 1]
    if mode == "after":
        return e0
    ls = src.rfind("\n", 0, s0) + 1
    return ls if src[ls:s0].strip() == "" else s0


def _end_anchor(src, m, fp):
    """Just before the tail expression if the body has one, else just before the closing brace."""
    st = top_statements(m, fp)
    if st:
        s0, e0 = st[-1]
        last = m[s0:e0].rstrip()
        if not (last.endswith(";") or last.endswith("}")):
            ls = src.rfind("\n", 0, s0) + 1
            return ls if src[ls:s0].strip() == "" else s0
    b1 = fp.body_close
    ls = src.rfind("\n", 0, b1) + 1
    return ls if src[ls:b1].strip() == "" else b1


_dir = re.compile(r"^\s*//@\s*(\S+)\s*(.*)$")


def parse_template(path):
    """Return list of nodes: ('text', line_no, str) | ('item', line_no, file, selector, body)
    and a dict of template-level settings."""
    with open(path, encoding="utf-8") as f:
        lines = f.read().split("\n")
    nodes = []
    settings = {"unit_props": [], "fn_props": {}, "derive_keep": None, "expect_fail": []}
    i = 0
    n = len(lines)
    while i < n:
        mm = _dir.match(lines[i])
        if not mm:
            nodes.append(("text", i + 1, lines[i]))
            i += 1
            continue
        d, arg = mm.group(1), mm.group(2).strip()
        if d == "include":
            inc = os.path.join(os.path.dirname(path), arg)
            with open(inc, encoding="utf-8") as f:
                for k, l in enumerate(f.read().split("\n")):
                    nodes.append(("text", i + 1, l))
            i += 1
        elif d == "unit-props":
            settings["unit_props"] = arg.split()
            i += 1
        elif d == "fn-props":
            nm, ps = arg.split(":")
            settings["fn_props"][nm.strip()] = ps.split()
            i += 1
        elif d == "derive-keep":
            settings["derive_keep"] = tuple(arg.split())
            i += 1
        elif d == "item":
            relfile, selector = [x.strip() for x in arg.split("::", 1)]
            start_line = i + 1
            i += 1
            body = []
            cur = None
            closed = False
            while i < n:
                m2 = _dir.match(lines[i])
                if m2:
                    d2, a2 = m2.group(1), m2.group(2).strip()
                    if d2 == "end":
                        closed = True
                        i += 1
                        break
                    if d2 == "item":
                        break
                    if d2 in ("props", "ret"):
                        body.append((d2, a2, [], i + 1))
                        cur = None
                    elif d2 == "spec":
                        cur = (d2, None, [], i + 1)
                        body.append(cur)
                    elif d2 in ("before", "after"):
                        alts = []
                        for part in re.split(r"\s+\|\s+", a2):
                            part = part.strip()
                            t = re.match(r"^`(.*)`$", part)
                            t2 = re.match(r"^stmt\s+(\d+)/(\d+)$", part)
                            if t:
                                alts.append(("text", t.group(1)))
                            elif t2:
                                alts.append(("stmt", (int(t2.group(1)), int(t2.group(2)))))
                            elif part == "end":
                                alts.append(("end", None))
                            else:
                                raise LostAnchor("%s:%d: bad anchor `%s`" % (path, i + 1, part))
                        cur = (d2, alts, [], i + 1)
                        body.append(cur)
                    elif d2 == "start":
                        cur = (d2, None, [], i + 1)
                        body.append(cur)
                    elif d2 == "loop":
                        owned = bool(re.search(r"\s+owned\s*$", a2))
                        a2 = re.sub(r"\s+owned\s*$", "", a2)
                        t = re.match(r"(\d+)\s*(?:`(.*)`)?\s*(?:(?:iter|index)=(\w+))?\s*$", a2)
                        if t and "index=" in a2 and t.group(3):
                            cur = (d2, (int(t.group(1)), t.group(2), ("ownedindex:" if owned else "index:") + t.group(3)), [], i + 1)
                            body.append(cur)
                            i += 1
                            continue
                        cur = (d2, (int(t.group(1)), t.group(2), t.group(3)), [], i + 1)
                        body.append(cur)
                    elif d2 in ("find-map", "find-range"):
                        t = re.match(r"(\d+)\s+index=(\w+)\s*$", a2)
                        if not t:
                            raise LostAnchor("%s:%d: find-map/find-range directive needs `<n> index=<name>`" % (path, i + 1))
                        cur = (d2, (int(t.group(1)), t.group(2)), [], i + 1)
                        body.append(cur)
                    elif d2 == "positions-chain":
                        t = re.match(r"`(.*)`\s+index=(\w+)\s*$", a2)
                        if not t:
                            raise LostAnchor("%s:%d: positions-chain directive needs `statement prefix` index=<name>" % (path, i + 1))
                        cur = (d2, (t.group(1), t.group(2)), [], i + 1)
                        body.append(cur)
                    elif d2 == "closure":
                        t = re.match(r"`(.*)`\s*=>\s*`(.*)`\s*$", a2)
                        if not t:
                            raise LostAnchor("%s:%d: closure directive needs `head` => `typed head with spec`" % (path, i + 1))
                        body.append((d2, (t.group(1), t.group(2)), [], i + 1))
                        cur = None
                    elif d2 == "iter-collect":
                        body.append((d2, a2.strip() or "vec_refs", [], i + 1))
                        cur = None
                    elif d2 == "attr":
                        body.append((d2, a2, [], i + 1))
                        cur = None
                    elif d2 == "replace-stmt":
                        t = re.match(r"`(.*)`\s*=>\s*`(.*)`\s*$", a2)
                        if not t:
                            raise LostAnchor("%s:%d: replace-stmt directive needs `statement prefix` => `replacement statement`" % (path, i + 1))
                        body.append((d2, (t.group(1), t.group(2)), [], i + 1))
                        cur = None
                    elif d2 == "derived-ord":
                        body.append((d2, None, [], i + 1))
                        cur = None
                    elif d2 == "keep-pub":
                        # the item keeps its `pub` markers (needed when a pub trait's spec impl mentions its fields)
                        body.append((d2, None, [], i + 1))
                        cur = None
                    elif d2 == "rename":
                        t = re.match(r"([\w:]+)\s*=>\s*([\w:]+)\s*$", a2)
                        if not t:
                            raise LostAnchor("%s:%d: rename directive needs `A => B` (identifiers or paths)" % (path, i + 1))
                        body.append((d2, (t.group(1), t.group(2)), [], i + 1))
                        cur = None
                    elif d2 == "drop-arm":
                        t = re.match(r"`(.*)`\s*$", a2)
                        body.append((d2, t.group(1), [], i + 1))
                        cur = None
                    elif d2 == "noop-closure":
                        t = re.match(r"`(.*)`\s+`(.*)`\s*$", a2)
                        body.append((d2, (t.group(1), t.group(2)), [], i + 1))
                        cur = None
                    else:
                        raise LostAnchor("%s:%d: unknown directive %s" % (path, i + 1, d2))
                    i += 1
                else:
                    if cur is not None:
                        cur[2].append(lines[i])
                    else:
                        closed = True
                        break
                    i += 1
            if not closed and any(b[0] in ("spec", "before", "after", "loop", "start", "find-map", "find-range", "positions-chain") for b in body):
                raise LostAnchor("%s:%d: item block with splices needs //@ end" % (path, start_line))
            nodes.append(("item", start_line, relfile, selector, body))
        else:
            raise LostAnchor("%s:%d: unknown directive %s" % (path, i + 1, d))
    return nodes, settings


class Assembled:
    def __init__(self):
        self.text = ""
        self.linemap = []      # per output line (1-based index-1): origin tuple
        self.items = []        # ItemOut
        self.settings = None
        self.trusted = []
        self.fn_spans = []     # (name, qualname, first_line, last_line, is_twin)


def assemble(repo, tmpl_path, twins=False):
    nodes, settings = parse_template(tmpl_path)
    tname = os.path.basename(tmpl_path)
    opts = {}
    if settings["derive_keep"] is not None:
        opts["derive_keep"] = settings["derive_keep"]
    A = Assembled()
    A.settings = settings
    segs = []
    for nd in nodes:
        if nd[0] == "text":
            segs.append((nd[2] + "\n", ("tmpl", tname, nd[1])))
        else:
            _, ln, relfile, selector, body = nd
            io = expand_item(repo, relfile, selector, body, tname, ln, opts)
            A.items.append(io)
            A.trusted.extend(io.trusted)
            segs.extend(io.segments)
            segs.append(("\n", ("tmpl", tname, ln)))
            if twins and io.kind == "fn" and io.has_spec:
                segs.extend(_twin(io))
                segs.append(("\n", ("tmpl", tname, ln)))
    # flatten
    text_parts = []
    linemap = []
    for text, origin in segs:
        if not text:
            continue
        text_parts.append(text)
    A.text = "".join(text_parts)
    # per-line origins: walk the segments
    cur_line_origin = None
    col0 = True
    for text, origin in segs:
        if not text:
            continue
        k = 0
        base = origin
        sub = 0
        for ch in text:
            if col0:
                if base[0] in ("repo", "tmpl"):
                    linemap.append((base[0], base[1], base[2] + sub))
                else:
                    linemap.append(base)
                col0 = False
            if ch == "\n":
                sub += 1
                col0 = True
    A.linemap = linemap
    return A


def _twin(io):
    """A copy of a contracted function, renamed, with `ensures false` added: it
    must fail to verify (vacuity guard)."""
    out = []
    renamed = False
    for text, origin in io.segments:
        if origin[0] == "repo" and not renamed:
            new, n = re.subn(r"\bfn\s+%s\b" % re.escape(io.name), "fn %s__vacuity" % io.name, text, count=1)
            if n:
                renamed = True
                text = new
        if origin[0] == "tmpl" and getattr(io, "spec_text", None) is not None and text.strip() == io.spec_text.strip() and text.strip():
            if re.search(r"\bensures\b", text):
                text = re.sub(r"\bensures\b", "ensures false,", text, count=1)
            elif re.search(r"\bdecreases\b", text):
                text = re.sub(r"\bdecreases\b", "ensures false,\n decreases", text, count=1)
            else:
                text = text.rstrip().rstrip(",") + ",\n ensures false,\n"
        out.append((text, ("gen", "twin", 0) if origin[0] != "repo" else origin))
    if not renamed:
        raise LostAnchor("twin: could not rename %s" % io.name)
    return out
