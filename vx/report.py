"""Turn engine results into a verdict, an evidence file and (on violation) a replay file."""
import json
import os
import re
import time

from . import config as C
from . import kx

BASELINE = os.path.join(C.VERIF, "contracts", "baseline.json")
KNOWN = os.path.join(C.VERIF, "known_findings.txt")

TRUST_PATTERNS = (
    (r"\bassume\s*\(", "assume"),
    (r"\badmit\s*\(", "admit"),
    (r"verifier::external_body", "external_body"),
    (r"assume_specification", "assume_specification"),
    (r"verifier::external\b", "external"),
    (r"verifier::external_type_specification", "external_type_specification"),
    (r"verifier::truncate", "truncate"),
    (r"\bbroadcast\s+axiom\b|\baxiom\s+fn\b", "axiom"),
)


def load_baseline():
    try:
        with open(BASELINE) as f:
            return json.load(f)
    except OSError:
        return {}


def known_findings(prop):
    out = []
    try:
        with open(KNOWN) as f:
            for line in f:
                line = line.strip()
                if not line or line.startswith("#") or line.startswith("fixed:"):
                    continue
                m = re.match(r"property=(\S+)\s+obligation=(\S+)\s*(.*)$", line)
                if m and m.group(1) == prop:
                    rest = m.group(3)
                    ms = re.search(r'site="((?:[^"\\]|\\.)*)"', rest)
                    site = ms.group(1).replace('\\"', '"') if ms else None
                    out.append((m.group(2), rest, site))
    except OSError:
        pass
    return out


def qual(fn):
    """`unit::Type::name` -> `Type::name`"""
    return fn.split("::", 1)[1] if "::" in fn else fn


def tags_for(R):
    """qualname -> set(props) for every function of the unit."""
    A = R.assembled
    st = A.settings
    t = {}
    for io in A.items:
        if io.kind == "fn":
            t[io.qualname] = set(io.props or st["unit_props"])
    for fn in R.functions:
        q = qual(fn)
        if q.endswith("__vacuity"):
            continue
        if q not in t:
            # functions inside a `mod` of the unit carry the module path: match the item by its suffix
            parts = q.split("::")
            for k in range(1, len(parts)):
                suf = "::".join(parts[k:])
                # (a free function of a module: `sb::first_header` is the item `first_header`; every part before it names a module)
                if suf in t and (len(parts[k:]) >= 2 or all(p_ == p_.lower() for p_ in parts[:k])):
                    t[q] = t[suf]
                    break
        if q not in t:
            nm = q.split("::")[-1]
            t[q] = set(st["fn_props"].get(q, st["fn_props"].get(nm, st["unit_props"])))
    return t


def scan_trusted(R):
    found = []
    A = R.assembled
    lines = A.text.split("\n")
    for i, ln in enumerate(lines):
        code = ln.split("//")[0]
        for pat, name in TRUST_PATTERNS:
            if re.search(pat, code):
                # name the function that follows / contains
                ctx = ""
                for j in range(i, min(i + 4, len(lines))):
                    mm = re.search(r"\bfn\s+([A-Za-z_0-9]+)|\bstruct\s+([A-Za-z_0-9]+)|impl\s+([A-Za-z_0-9 ]+)", lines[j])
                    if mm:
                        ctx = next(g for g in mm.groups() if g)
                        break
                o = A.linemap[i] if i < len(A.linemap) else ("?", "?", 0)
                found.append("%s: %s [%s] (%s:%s)" % (R.unit, name, ctx.strip(), o[1], o[2]))
    return found


def fn_errors(R, q):
    """error blocks attributed to function with qualname q"""
    nm = q.split("::")[-1]
    cands = [e for e in R.errors if e.get("fn") == nm]
    # disambiguate same short name in different impls through the span table
    return cands


def obligation_taint(R, q, io):
    """Reasons why a failure of function q in run R is not a verdict (see the caller)."""
    from . import run as RUN
    out = []
    short = q.split("::")[-1]
    if io is not None:
        for (rule, where, desc) in io.rules:
            if rule == "T7o" and "invariant dropped" in desc:
                out.append("its loop invariant had nothing to attach to (%s)" % desc)
    if short in getattr(R, "noloop_fns", []):
        out.append("the changed code has a new loop or recursion without invariant/measure (verified as arbitrary effect)")
    info = getattr(R, "stub_info", [])
    if info:
        text = R.assembled.text
        lines = text.split("\n")
        body = ""
        for (nm, a_, b_) in RUN.fn_spans(text):
            if nm == short:
                body += "\n".join(lines[a_ - 1:b_]) + "\n"
        for (name, is_mut) in info:
            if is_mut and re.search(r"\.\s*%s\s*\(" % re.escape(name), body):
                out.append("it now calls %s(), a mutating method outside every contract (modelled as arbitrary effect)" % name)
    return out


def conclude(prop, a, cfg, results, twins, stability, kani, seed, t0):
    base = load_baseline()
    undecided = []
    violations = []     # dict(obligation, unit, q, errors, repo)
    known_hits = []
    obligations = 0
    discharged = 0
    samples = []
    functions_under_contract = []
    trusted = []
    rules = {}
    smt_ms = 0
    cmds = []
    known = known_findings(prop)
    new_base = dict(base)

    for u, R in sorted(results.items()):
        cmds.append(R.cmd or ("verus <%s>" % u))
        if R.status == "undecided":
            undecided.append("%s: %s" % (u, R.reason))
            continue
        smt_ms += R.smt_ms
        tags = tags_for(R)
        tb = scan_trusted(R)
        if getattr(R, "auto_stubs", None):
            # stubs generated for this run only are not part of the committed ledger
            tb = [t for t in tb if "auto-stub" not in t]
        trusted.extend(tb)
        trusted.extend("%s: %s" % (u, t) for t in R.assembled.trusted)
        for io in R.assembled.items:
            for (rule, where, desc) in io.rules:
                rules[rule] = rules.get(rule, 0) + 1
        ub = base.get(u, {})
        verified_now = sorted(qual(f) for f, d in R.functions.items() if d["success"])
        if a.rebaseline:
            new_base[u] = {"verified": verified_now, "trusted": sorted(set(tb))}
            if base.get(u, {}).get("partial"):
                # functions that fail only at known-finding sites: recorded by the checks that list such findings;
                # a rebaseline through a property without findings must not forget them
                new_base[u]["partial"] = dict(base[u]["partial"])
            ub = new_base[u]
        bl = set(ub.get("verified", []))
        if not a.rebaseline and sorted(set(tb)) != ub.get("trusted", []):
            undecided.append("%s: trusted-base ledger differs from the committed one: %s" %
                             (u, sorted(set(tb) ^ set(ub.get("trusted", [])))))
        present = set(qual(f) for f in R.functions)
        missing = [q for q in bl if q not in present and prop in tags.get(q, set())]
        if missing:
            undecided.append("%s: obligations of the baseline were not generated: %s" % (u, missing))
        items_by_q = {io.qualname: io for io in R.assembled.items if io.kind == "fn"}
        for fn_ in list(R.functions):
            q_ = qual(fn_)
            parts_ = q_.split("::")
            for k_ in range(1, len(parts_)):
                suf_ = "::".join(parts_[k_:])
                if suf_ in items_by_q and (len(parts_[k_:]) >= 2 or all(p_ == p_.lower() for p_ in parts_[:k_])) and q_ not in items_by_q:
                    items_by_q[q_] = items_by_q[suf_]
                    break
        for fn, d in sorted(R.functions.items()):
            q = qual(fn)
            if q.endswith("__vacuity"):
                continue
            if prop not in tags.get(q, set()):
                continue
            obligations += 1
            io = items_by_q.get(q)
            ob = "%s::%s" % (u, q)
            if io is not None:
                functions_under_contract.append({
                    "function": q, "repo": "%s:%d-%d" % (io.file, io.repo_lines[0], io.repo_lines[1]),
                    "verus_ms": round(d["time_us"] / 1000.0, 1), "verified": d["success"]})
            if d["success"]:
                discharged += 1
                if len(samples) < 12:
                    samples.append({"obligation": ob, "mode": d["mode"], "backend": "verus/z3",
                                    "time_ms": round(d["time_us"] / 1000.0, 1), "rlimit": d["rlimit"],
                                    "repo": ("%s:%d" % (io.file, io.repo_lines[0])) if io else "ghost (template)"})
                continue
            errs = fn_errors(R, q)
            kinds = set(e["kind"] for e in errs)
            # known findings are matched per failing site (the flagged clause / statement), not per function
            kf = [k for k in known if k[0] == ob]
            defin = [e for e in errs if e["kind"] == "definite"]
            matched = [e for e in defin if any(k[2] is None or k[2] == e.get("site") for k in kf)]
            unmatched = [e for e in defin if e not in matched]
            partial = set(ub.get("partial", {}).get(q, []))
            if a.rebaseline and kf and defin and not unmatched and kinds == {"definite"}:
                new_base[u].setdefault("partial", {})[q] = sorted(set(e.get("site") for e in defin))
                partial = set(new_base[u]["partial"][q])
            if q not in bl and q not in ub.get("partial", {}) and not (a.rebaseline and q in new_base[u].get("partial", {})):
                undecided.append("%s: fails but was never discharged on the unchanged tree (needs contract work)" % ob)
                continue
            if "definite" not in kinds:
                undecided.append("%s: failed without a definite verifier answer (%s)" %
                                 (ob, ", ".join(sorted(set(e["msg"] for e in errs))) or "no diagnostic"))
                continue
            if kf and matched:
                for k in kf:
                    if any(k[2] is None or k[2] == e.get("site") for e in matched):
                        known_hits.append((ob, k[1]))
            if not unmatched:
                if kf and matched:
                    # exactly the listed finding(s) and nothing else: neither discharged nor a new violation
                    obligations -= 1
                    continue
            errs = unmatched if unmatched else errs
            # A definite failure is a verdict only if the function was checked with all of its proof hints and without
            # havoc: a loop invariant that had nothing to attach to (the loop moved or was rewritten), a new loop that
            # has no invariant at all, or a call of a mutating method outside every contract (modelled as arbitrary
            # effect) make the verifier fail for reasons that say nothing about the property.  Not an alarm.
            taint = obligation_taint(R, q, io)
            if taint:
                undecided.append("%s: fails, but cannot be decided: %s" % (ob, "; ".join(taint)))
                continue
            violations.append({"obligation": ob, "unit": u, "q": q, "errors": errs, "auto_stubs": getattr(R, "auto_stubs", []),
                               "repo": ("%s:%d-%d" % (io.file, io.repo_lines[0], io.repo_lines[1])) if io else None,
                               "gen": R.gen_path})
    # vacuity guard
    vac_total = 0
    vac_failed = 0
    for u, T in sorted(twins.items()):
        if T.status == "undecided":
            undecided.append("%s (vacuity twins): %s" % (u, T.reason))
            continue
        for fn, d in T.functions.items():
            if qual(fn).endswith("__vacuity"):
                vac_total += 1
                if d["success"]:
                    undecided.append("%s: vacuity guard: %s verifies with `ensures false` - contradictory precondition or assumption" % (u, qual(fn)))
                else:
                    vac_failed += 1
        expected = sum(1 for io in T.assembled.items if io.kind == "fn" and io.has_spec)
        seen = sum(1 for fn in T.functions if qual(fn).endswith("__vacuity"))
        if seen != expected:
            undecided.append("%s: vacuity guard generated %d twins, verus checked %d" % (u, expected, seen))
    # stability (thorough)
    stab_runs = 0
    for u, rs_ in stability.items():
        for S in rs_:
            stab_runs += 1
            if S.status == "undecided":
                undecided.append("%s (stability run): %s" % (u, S.reason))
                continue
            main = results.get(u)
            if main is None or main.status == "undecided":
                continue
            for fn, d in S.functions.items():
                md = main.functions.get(fn.replace(S.unit + "_s", S.unit))
            mset = {qual(f): d["success"] for f, d in main.functions.items()}
            sset = {qual(f): d["success"] for f, d in S.functions.items()}
            diff = [q for q in mset if q in sset and mset[q] != sset[q]]
            if diff:
                undecided.append("%s: unstable proof (differs under another rlimit/seed): %s" % (u, diff))

    # kani
    kani_ev = None
    if kani is not None:
        kani_ev = kx.evidence(kani)
        cmds.extend(kani.get("cmds", []))
        for h in kani["harnesses"]:
            obligations += 1
            ob = "kani::%s" % h["name"]
            if h["status"] == "ok":
                discharged += 1
                if len(samples) < 16:
                    samples.append({"obligation": ob, "backend": "kani/cbmc", "checks": h.get("checks"),
                                    "time_s": h.get("time_s"), "kind": h.get("kind")})
            elif h["status"] == "failed":
                hit = [k for k in known if k[0] == ob]
                if hit:
                    known_hits.append((ob, hit[0][1]))
                elif ob not in set(base.get("kani", {}).get("verified", [])) and not a.rebaseline:
                    undecided.append("%s: fails but was never discharged on the unchanged tree" % ob)
                else:
                    violations.append({"obligation": ob, "unit": "kani", "q": h["name"], "errors": [],
                                       "kani": h, "repo": h.get("repo"), "gen": None})
            else:
                undecided.append("%s: %s" % (ob, h.get("reason", "undecided")))
        trusted.extend(kani.get("trusted", []))
        if a.rebaseline:
            kb = set(new_base.get("kani", {}).get("verified", []))
            kb |= set("kani::%s" % h["name"] for h in kani["harnesses"] if h["status"] == "ok")
            new_base["kani"] = {"verified": sorted(kb)}

    if a.rebaseline:
        with open(BASELINE, "w") as f:
            json.dump(new_base, f, indent=1, sort_keys=True)
            f.write("\n")

    # counterexample search for Verus failures through Kani twins
    replay_paths = []
    for v in violations:
        cex = None
        if v["unit"] != "kani":
            cex = kx.counterexample_for(v["obligation"], a.tier, kani)
        elif v.get("kani"):
            cex = v["kani"].get("cex")
        path = write_replay(prop, v, cex)
        replay_paths.append((path, cex is not None and cex.get("found")))

    wall = time.time() - t0
    ev = {
        "property_id": prop,
        "tier": a.tier,
        "seed": seed,
        "level": "proof",
        "coverage": {
            "obligations": obligations,
            "discharged": discharged,
            "checker_cmd": " ; ".join(cmds),
            "trusted_base": sorted(set(trusted)),
            "samples": samples,
            "explanation": cfg.get("explanation", ""),
            "functions_under_contract": functions_under_contract,
            "backends": {"verus/z3": {"obligations": sum(1 for s in functions_under_contract) , "smt_ms": smt_ms},
                         "kani/cbmc": kani_ev},
            "obligation_unit": "one obligation = one function's verification-condition group as reported by "
                               "verus --output-json function-breakdown (exec fn against its contract, or a proof fn/lemma), "
                               "or one Kani proof harness",
            "extraction_rules_applied": rules,
            "vacuity_guard": {"twins_with_ensures_false": vac_total, "twins_rejected_by_verifier": vac_failed},
            "stability_runs": stab_runs,
            "undecided": undecided,
            "known_findings_hit": sorted(set(k[0] + " " + k[1] for k in known_hits)),
        },
        "assumptions": cfg.get("assumptions", []),
        "wall_s": round(wall, 2),
        "violations": len(violations),
    }
    # the committed evidence describes /repo itself; a run against a scratch copy (self-test, seeded changes applied
    # elsewhere) writes its evidence next to its build output instead
    evdir = os.path.join(C.VERIF, "evidence") if os.path.realpath(C.REPO) == "/repo" else os.path.join(C.BUILD, "evidence_scratch")
    os.makedirs(evdir, exist_ok=True)
    with open(os.path.join(evdir, prop + ".json"), "w") as f:
        json.dump(ev, f, indent=1)
        f.write("\n")

    for ob, what in sorted(set(known_hits)):
        print("KNOWN-FINDING: property=%s %s %s" % (prop, ob, what))
    if violations:
        for v, (path, found) in zip(violations, replay_paths):
            print("failed obligation: %s  (%s)" % (v["obligation"], v.get("repo")))
            for e in v["errors"][:4]:
                print("   %s  at %s" % (e["msg"], fmt_origin(e.get("origin"))))
            print("VIOLATION property=%s replay=%s%s" % (prop, path, "" if found else " no-failing-input-found"))
        return 1
    if undecided:
        print("UNDECIDED property=%s (no verdict; this is not an alarm)" % prop)
        for u in undecided:
            print("   " + u[:3000])
        return 2
    print("OK property=%s tier=%s obligations=%d discharged=%d wall=%.1fs" % (prop, a.tier, obligations, discharged, wall))
    return 0


def fmt_origin(o):
    if not o:
        return "?"
    if o[0] == "repo":
        return "/repo/%s:%s" % (o[1], o[2])
    if o[0] == "tmpl":
        return "/verif/contracts/%s:%s" % (o[1], o[2])
    return "generated (%s)" % o[1]


def write_replay(prop, v, cex):
    os.makedirs(os.path.join(C.VERIF, "replays"), exist_ok=True)
    safe = re.sub(r"[^A-Za-z0-9_.-]+", "_", v["obligation"])
    path = os.path.join(C.VERIF, "replays", "%s-%s.txt" % (prop, safe))
    L = []
    L.append("property: %s" % prop)
    L.append("failed obligation: %s" % v["obligation"])
    L.append("repository function: %s" % (v.get("repo") or "(ghost/lemma or harness)"))
    if v.get("gen"):
        L.append("verified text: %s (extracted from /repo's working tree on this run)" % v["gen"])
        L.append("re-run: cd /verif && ./check %s" % prop)
    for st in v.get("auto_stubs", []) or []:
        L.append("note: " + st)
    L.append("")
    for e in v["errors"]:
        L.append("---- verifier diagnostic (%s) ----" % e["kind"])
        L.append("clause/site: %s" % fmt_origin(e.get("origin")))
        for o in e.get("related", []):
            L.append("   involves: %s" % fmt_origin(o))
        L.append(e["text"])
        L.append("")
    if cex and cex.get("found"):
        L.append("==== failing input found by the Kani twin, replayed on the real code ====")
        L.append(cex.get("text", ""))
    else:
        L.append("==== no-failing-input-found ====")
        L.append("Verus gives no counterexample." + (" Kani twin: " + cex.get("text", "") if cex else
                 " No Kani twin exists for this obligation."))
    with open(path, "w") as f:
        f.write("\n".join(L) + "\n")
    return path
