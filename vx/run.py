"""Run Verus on an assembled unit and attribute the results."""
import json
import os
import re
import subprocess
import time

from . import rustscan as rs
from . import unit as U

VERUS = os.environ.get("VERIF_VERUS", "verus")

DEFINITE = (
    "postcondition not satisfied",
    "precondition not satisfied",
    "assertion failed",
    "assertion failure",
    "invariant not satisfied",
    "loop invariant not preserved",
    "loop invariant not satisfied",
    "decreases not satisfied",
    "possible arithmetic underflow/overflow",
    "possible division by zero",
    "possible bit shift underflow/overflow",
    "unreachable code reached",
    "failed this postcondition",
    "cannot prove termination",
    "fails to satisfy `callee.requires(args)`",
    "unable to prove post-condition of closure",
    "could not prove termination",
)
INCONCLUSIVE = (
    "Resource limit (rlimit) exceeded",
    "rlimit",
    "timed out",
)


class UnitResult:
    def __init__(self):
        self.unit = None
        self.status = "ok"          # ok | failed | undecided
        self.reason = ""
        self.functions = {}         # verus fn name -> dict(success, time_us, rlimit, mode)
        self.errors = []            # dict(msg, kind, gen_line, origin, fn, text)
        self.assembled = None
        self.cmd = ""
        self.wall_s = 0.0
        self.smt_ms = 0
        self.stderr = ""
        self.gen_path = ""


def fn_spans(text):
    """(name, first_line, last_line) for every fn with a body in text."""
    m = rs.mask(text)
    spans = []
    for mm in re.finditer(r"\bfn\s+([A-Za-z_][A-Za-z0-9_]*)", m):
        k = mm.end()
        n = len(m)
        body = None
        while k < n:
            c = m[k]
            if c == "{":
                # a brace inside a requires/ensures clause (`P ==> { &&& .. }`) is not the body: the body's brace
                # either follows the signature directly or stands first on its line
                ls = m.rfind("\n", 0, k) + 1
                if m[ls:k].strip() == "" or not re.search(r"\b(requires|ensures|decreases|recommends)\b", m[mm.end():k]):
                    body = k
                    break
                k = rs.match_close(m, k)
            elif c == ";":
                break
            elif c in "([":
                k = rs.match_close(m, k)
            k += 1
        if body is None:
            continue
        try:
            e = rs.match_close(m, body)
        except rs.ScanError:
            continue
        spans.append((mm.group(1), text.count("\n", 0, mm.start()) + 1, text.count("\n", 0, e) + 1))
    return spans


def short(fn):
    """`unit::Arena::delete_branch` / `unit::impl&%3::delete_branch` -> last segment."""
    return fn.split("::")[-1]


def _verus(gen, build_dir, rlimit, extra, timeout, multiple_errors=8):
    cmd = [VERUS, gen, "--output-json", "--time", "--multiple-errors", str(multiple_errors)]
    if rlimit:
        cmd += ["--rlimit", str(rlimit)]
    cmd += list(extra)
    p = subprocess.run(cmd, capture_output=True, text=True, timeout=timeout, cwd=build_dir)
    return cmd, p


_missing = re.compile(r"no method named `(\w+)` found for (?:mutable reference|reference|struct|enum) `([^`]*)`")


def auto_stubs(repo, A, stderr):
    """The changed code calls a method that is not among the extracted items.  Find it in the repository
    (same type, any file an item of this unit came from), and return text declaring it as an external
    stub WITHOUT contract (its effect and result are unconstrained), plus a description."""
    wanted = []
    for mm in _missing.finditer(stderr):
        name, ty = mm.group(1), mm.group(2)
        ty = ty.replace("&mut", "").replace("&", "").strip()
        ty = re.split(r"[<\s]", ty)[0].split("::")[-1]
        if (name, ty) not in wanted:
            wanted.append((name, ty))
    out = []
    files = []
    for io in A.items:
        if io.file not in files:
            files.append(io.file)
    for (name, ty) in wanted:
        done = False
        for f in files:
            src, m = U.load(repo, f)
            for it in rs.items(src, m, 0, len(src)):
                if it.kind != "impl" or it.cfg_test or it.impl_type != ty or it.impl_trait is not None:
                    continue
                for sub in rs.items(src, m, it.body_open + 1, it.end - 1):
                    if sub.kind == "fn" and sub.name == name and sub.body_open is not None:
                        header = src[it.head:it.body_open].strip()
                        sig = src[sub.head:sub.sig_end].strip()
                        sig = re.sub(r"\bpub\b(\s*\([^)]*\))?\s*", "", sig)
                        text = "\n%s {\n    #[verifier::external_body]\n    %s { unimplemented!() }\n}\n" % (header, sig)
                        out.append((text, "%s::%s (%s:%d) is called by changed code but is not under contract: "
                                    "modelled as an external function with unconstrained effect" %
                                    (ty, name, f, U.line_of(src, sub.start))))
                        done = True
                        break
                if done:
                    break
            if done:
                break
        if done:
            continue
        # a provided method of a trait the type implements (the unit instantiates such methods as inherent ones)
        header = None
        for f in files:
            src, m = U.load(repo, f)
            for it in rs.items(src, m, 0, len(src)):
                if it.kind == "impl" and not it.cfg_test and it.impl_type == ty:
                    h = src[it.head:it.body_open].strip()
                    mg = re.match(r"impl\s*(<[^>]*>)?", h)
                    gen = (mg.group(1) or "") if mg else ""
                    tail = h.split(" for ")[-1].strip() if " for " in h else re.sub(r"^impl\s*(<[^>]*>)?\s*", "", h)
                    header = "impl%s %s" % (gen, tail)
                    break
            if header:
                break
        if header:
            for f in files:
                src, m = U.load(repo, f)
                for it in rs.items(src, m, 0, len(src)):
                    if it.kind != "trait" or it.cfg_test:
                        continue
                    for sub in rs.items(src, m, it.body_open + 1, it.end - 1):
                        if sub.kind == "fn" and sub.name == name:
                            sig = src[sub.head:sub.sig_end].strip()
                            text = "\n%s {\n    #[verifier::external_body]\n    %s { unimplemented!() }\n}\n" % (header, sig)
                            out.append((text, "%s::%s (provided by trait %s, %s:%d) is called by changed code but is not under "
                                        "contract: modelled as an external function with unconstrained result" %
                                        (ty, name, it.name, f, U.line_of(src, sub.start))))
                            done = True
                            break
                    if done:
                        break
                if done:
                    break
    return out


def _split_args(m, src, lo, hi):
    """top-level comma split of src[lo:hi] (m = masked text)"""
    out, k, start = [], lo, lo
    while k < hi:
        c = m[k]
        if c in "([{":
            k = rs.match_close(m, k)
        elif c == ",":
            out.append(src[start:k].strip())
            start = k + 1
        k += 1
    last = src[start:hi].strip()
    if last:
        out.append(last)
    return out


def inline_helpers(repo, A, stderr):
    """T13.  The changed code calls an inherent method that is not among the extracted items (typically a helper
    that a refactoring split off).  If the helper is simple - no loop, no early return, no `?`, not recursive, no
    generics, plain `name: Type` parameters - every call `<recv>.name(args)` with a receiver path that starts at
    `self` is replaced by the helper's real body:
        { let __h0 = arg0; ..; { let p0 = __h0; ..; <body with self := recv> } }
    so that the caller is verified against the code that really runs, not against an unconstrained stub.
    Returns [(description)] and edits A.text / A.linemap in place."""
    wanted = []
    for mm in _missing.finditer(stderr):
        name, ty = mm.group(1), mm.group(2)
        ty = ty.replace("&mut", "").replace("&", "").strip()
        ty = re.split(r"[<\s]", ty)[0].split("::")[-1]
        if (name, ty) not in wanted:
            wanted.append((name, ty))
    files = []
    for io in A.items:
        if io.file not in files:
            files.append(io.file)
    done = []
    for (name, ty) in wanted:
        found = None
        for f in files:
            src, m = U.load(repo, f)
            for it in rs.items(src, m, 0, len(src)):
                if it.kind != "impl" or it.cfg_test or it.impl_type != ty or it.impl_trait is not None:
                    continue
                for sub in rs.items(src, m, it.body_open + 1, it.end - 1):
                    if sub.kind == "fn" and sub.name == name and sub.body_open is not None:
                        found = (f, src, m, sub)
            if found:
                break
        if not found:
            continue
        f, src, m, sub = found
        try:
            fp = rs.fn_parts(src, m, sub)
        except rs.ScanError:
            continue
        sig = m[sub.head:fp.params_open]
        body_m = m[fp.body_open + 1:fp.body_close]
        if "<" in sig or fp.where_start is not None:
            continue
        if re.search(r"\b(return|for|while|loop|await)\b|\?", body_m) or re.search(r"\b%s\s*\(" % re.escape(name), body_m):
            continue
        params = _split_args(m, src, fp.params_open + 1, fp.params_close)
        if not params or not re.match(r"^&\s*(mut\s+)?self$|^self$", params[0].strip()):
            continue
        plist = []
        ok = True
        for prm in params[1:]:
            mp = re.match(r"^(mut\s+)?([A-Za-z_][A-Za-z0-9_]*)\s*:\s*(.+)$", prm, re.S)
            if not mp:
                ok = False
                break
            plist.append((bool(mp.group(1)), mp.group(2), re.sub(r"\s+", " ", mp.group(3)).strip()))
        if not ok:
            continue
        body_src = src[fp.body_open + 1:fp.body_close]
        body_line0 = U.line_of(src, fp.body_open + 1)
        n_calls = 0
        while True:
            tm = rs.mask(A.text)
            mc = re.search(r"(\bself(?:\s*\.\s*[A-Za-z_][A-Za-z0-9_]*)*?)\s*\.\s*%s\s*\(" % re.escape(name), tm)
            if not mc:
                break
            par = tm.index("(", mc.end() - 1)
            try:
                close = rs.match_close(tm, par)
            except rs.ScanError:
                break
            recv = re.sub(r"\s+", "", A.text[mc.start(1):mc.end(1)])
            args = _split_args(tm, A.text, par + 1, close)
            if len(args) != len(plist):
                break
            b = body_src
            if recv != "self":
                bm = rs.mask(b)
                pieces, last = [], 0
                for ms in re.finditer(r"\bself\b", bm):
                    pieces.append(b[last:ms.start()])
                    pieces.append(recv)
                    last = ms.end()
                pieces.append(b[last:])
                b = "".join(pieces)
            head = "{ " + " ".join("let __h%d = %s;" % (i, a_) for i, a_ in enumerate(args)) + " { " + \
                   " ".join("let %s%s: %s = __h%d;" % ("mut " if mu else "", pn, pt, i) for i, (mu, pn, pt) in enumerate(plist))
            rep = head + b + " } }"
            l0 = A.text.count("\n", 0, mc.start(1))
            l1 = A.text.count("\n", 0, close)
            A.text = A.text[:mc.start(1)] + rep + A.text[close + 1:]
            nl = rep.count("\n")
            first = A.linemap[l0] if l0 < len(A.linemap) else ("gen", "inline", 0)
            A.linemap = A.linemap[:l0] + [first] + [("repo", f, body_line0 + k) for k in range(1, nl + 1)] + A.linemap[l1 + 1:]
            n_calls += 1
            if n_calls > 20:
                break
        if n_calls:
            done.append("T13 %s::%s (%s:%d): %d call%s replaced by the helper's body (it is not under contract; "
                        "simple enough to be verified in place)" % (ty, name, f, U.line_of(src, sub.start), n_calls, "" if n_calls == 1 else "s"))
    return done


def no_decreases_fixups(A, stderr, gen):
    """Changed code contains a loop/recursion without a measure.  Termination of that function is then not
    checked (attribute exec_allows_no_decreases_clause) so that its contract can still be decided."""
    out = []
    spans = fn_spans(A.text)
    errs = parse_errors(stderr, A, gen)
    seen = set()
    for e in errs:
        if "must have a decreases clause" not in e["msg"] or not e["gen_line"]:
            continue
        best = None
        for (nm, a, b) in spans:
            if a <= e["gen_line"] <= b and (best is None or a >= best[1]):
                best = (nm, a, b)
        if best and best[1] not in seen:
            seen.add(best[1])
            out.append((best[1], "termination of %s is not checked: the changed code has a loop or recursion without a measure" % best[0]))
    if not out:
        # diagnostic without a location (loop header produced by a macro): every function that contains a
        # while/loop but no decreases clause at all
        lines = A.text.split("\n")
        for (nm, a, b) in spans:
            body = "\n".join(lines[a - 1:b])
            if re.search(r"\b(while|loop)\b", rs.mask(body)) \
                    and "exec_allows_no_decreases_clause" not in "\n".join(lines[max(0, a - 3):a]) and a not in seen:
                seen.add(a)
                out.append((a, "termination of %s is not checked: the changed code has a loop without a measure" % nm))
    return out


def run_unit(repo, tmpl_path, build_dir, twins=False, rlimit=None, extra=(), timeout=600, suffix=""):
    R = UnitResult()
    name = os.path.splitext(os.path.basename(tmpl_path))[0]
    R.unit = name
    R.auto_stubs = []
    R.stub_info = []     # (method name, takes &mut self) of every auto-stub
    R.noloop_fns = []    # functions that got exec_allows_no_decreases_clause: a new loop/recursion without measure
    t0 = time.time()
    try:
        A = U.assemble(repo, tmpl_path, twins=twins)
    except (U.LostAnchor, rs.ScanError, OSError) as e:
        R.status = "undecided"
        R.reason = "extraction: %s" % e
        R.wall_s = time.time() - t0
        return R
    R.assembled = A
    os.makedirs(build_dir, exist_ok=True)
    gen = os.path.join(build_dir, name + suffix + ("_twins" if twins else "") + ".rs")
    R.gen_path = gen
    p = None
    if twins:
        # vacuity twins only have to be *not provable*: a small resource limit is enough (a twin that runs out of
        # resources is as good as a twin that is refuted), so per-function rlimit attributes are dropped
        A.text = re.sub(r"#\[verifier::rlimit\(\d+\)\]", "", A.text)
        if rlimit is None:
            rlimit = 3
    inline_backup = None
    no_inline = False
    for attempt in range(8):
        with open(gen, "w", encoding="utf-8") as f:
            f.write(A.text)
        with open(gen + ".map.json", "w") as f:
            json.dump(A.linemap, f)
        try:
            cmd, p = _verus(gen, build_dir, rlimit, extra, timeout, 0 if twins else 8)
        except subprocess.TimeoutExpired:
            R.status = "undecided"
            R.reason = "verus timed out after %ds" % timeout
            R.wall_s = time.time() - t0
            return R
        R.cmd = " ".join(cmd)
        if inline_backup is not None and ('"encountered-vir-error": true' in p.stdout or '"function-breakdown"' not in p.stdout) \
                and "no method named" not in p.stderr and "must have a decreases clause" not in p.stderr:
            # the inlined helper does not compile under Verus (constructs outside its reach): go back and model the
            # helper as an external function instead
            A.text, A.linemap = inline_backup
            R.auto_stubs = [d for d in R.auto_stubs if not d.startswith("T13 ")]
            inline_backup = None
            no_inline = True
            continue
        inl = []
        if "no method named" in p.stderr and not no_inline:
            backup = (A.text, list(A.linemap))
            inl = inline_helpers(repo, A, p.stderr)
            if inl and inline_backup is None:
                inline_backup = backup
        if inl:
            R.auto_stubs += inl
            continue
        stubs = auto_stubs(repo, A, p.stderr) if "no method named" in p.stderr else []
        stubs = [s_ for s_ in stubs if s_[1] not in R.auto_stubs]
        nodec = no_decreases_fixups(A, p.stderr, gen) if "must have a decreases clause" in p.stderr else []
        nodec = [d for d in nodec if d[1] not in R.auto_stubs]
        if nodec:
            lines = A.text.split("\n")
            for (ln, desc) in sorted(nodec, reverse=True):
                lines.insert(ln - 1, "#[verifier::exec_allows_no_decreases_clause]")
                A.linemap.insert(ln - 1, ("gen", "auto-attr", 0))
                R.auto_stubs.append(desc)
                mfn = re.match(r"termination of (\w+) is not checked", desc)
                if mfn:
                    R.noloop_fns.append(mfn.group(1))
            A.text = "\n".join(lines)
            if not stubs:
                continue
        if not stubs:
            break
        # splice each stub right after the definition of its type (same module), else in front of the closing
        # brace of the verus! block, and retry
        for (t, d) in stubs:
            mt = re.search(r"impl(?:<[^>]*>)?\s+([A-Za-z_][A-Za-z0-9_]*)", t)
            k = -1
            if mt:
                msk = rs.mask(A.text)
                md = re.search(r"\b(?:struct|enum)\s+%s\b" % re.escape(mt.group(1)), msk)
                if md:
                    j = md.end()
                    while j < len(msk) and msk[j] not in "{;":
                        j += 1
                    if j < len(msk):
                        k = (rs.match_close(msk, j) + 1) if msk[j] == "{" else j + 1
            if k < 0:
                k = A.text.rfind("} // verus!")
            if k < 0:
                continue
            add = "\n" + t
            A.text = A.text[:k] + add + A.text[k:]
            nl = add.count("\n")
            line_k = A.text.count("\n", 0, k)
            A.linemap = A.linemap[:line_k + 1] + [("gen", "auto-stub", 0)] * nl + A.linemap[line_k + 1:]
        R.auto_stubs += [d for _, d in stubs]
        for (t, _d) in stubs:
            mn = re.search(r"\bfn\s+(\w+)", t)
            if mn:
                R.stub_info.append((mn.group(1), bool(re.search(r"&\s*(?:'\w+\s+)?mut\s+self", t))))
    R.wall_s = time.time() - t0
    R.stderr = p.stderr
    try:
        out = json.loads(p.stdout[p.stdout.index("{"):])
    except (ValueError, IndexError):
        R.status = "undecided"
        R.reason = "verus produced no JSON (exit %d): %s" % (p.returncode, p.stderr[-2000:])
        return R
    vr = out.get("verification-results", {})
    try:
        mods = out["times-ms"]["smt"]["smt-run-module-times"]
        R.smt_ms = out["times-ms"]["smt"].get("smt-run", 0)
    except KeyError:
        mods = []
    for md in mods:
        for fb in md.get("function-breakdown", []):
            R.functions[fb["function"]] = {
                "success": fb["success"], "time_us": fb["time-micros"],
                "rlimit": fb.get("rlimit", 0), "mode": fb.get("mode:", "")}
    R.errors = parse_errors(p.stderr, A, gen)
    spans = fn_spans(A.text)
    for e in R.errors:
        e["fn"] = None
        if e["gen_line"]:
            best = None
            for (nm, a, b) in spans:
                if a <= e["gen_line"] <= b and (best is None or a >= best[1]):
                    best = (nm, a, b)
            if best:
                e["fn"] = best[0]
    hard = [e for e in R.errors if e["kind"] == "other"]
    if vr.get("encountered-vir-error") or hard or (not mods and not vr.get("success")):
        R.status = "undecided"
        R.reason = "verus did not reach/finish verification: " + "; ".join(e["msg"] for e in hard[:3]) if hard else \
            "verus did not reach verification: %s" % p.stderr[-1500:]
        return R
    if any(not f["success"] for f in R.functions.values()):
        R.status = "failed"
    return R


_err_head = re.compile(r"^(error|warning|note)(\[[A-Z0-9]+\])?: (.*)$")
_loc = re.compile(r"^\s*--> (.*?):(\d+):(\d+)")


def parse_errors(stderr, A, gen):
    blocks = []
    cur = None
    for line in stderr.split("\n"):
        mm = _err_head.match(line)
        if mm:
            if cur:
                blocks.append(cur)
            cur = {"level": mm.group(1), "code": mm.group(2), "msg": mm.group(3), "lines": [line], "locs": []}
        elif cur is not None:
            cur["lines"].append(line)
            ml = _loc.match(line)
            if ml:
                cur["locs"].append((ml.group(1), int(ml.group(2))))
            else:
                # secondary labels:   "16 |   return vec![];"  lines carry their own numbers
                pass
    if cur:
        blocks.append(cur)
    errs = []
    for b in blocks:
        if b["level"] != "error":
            continue
        msg = b["msg"]
        if msg.startswith("aborting due to"):
            continue
        kind = "other"
        low = msg.lower()
        if any(d.lower() in low for d in DEFINITE):
            kind = "definite"
        if any(d.lower() in low for d in INCONCLUSIVE):
            kind = "inconclusive"
        gl = None
        for (fnm, ln) in b["locs"]:
            if os.path.basename(fnm) == os.path.basename(gen):
                gl = ln
                break
        origin = None
        if gl and 1 <= gl <= len(A.linemap):
            origin = A.linemap[gl - 1]
        # every line number mentioned in the block, mapped to origins (for the report)
        related = []
        for ln in b["lines"]:
            m2 = re.match(r"^\s*(\d+)\s*\|", ln)
            if m2:
                g = int(m2.group(1))
                if 1 <= g <= len(A.linemap):
                    o = A.linemap[g - 1]
                    if o not in related:
                        related.append(o)
        site = ""
        if gl:
            tl = A.text.split("\n")
            if 1 <= gl <= len(tl):
                site = re.sub(r"\s+", " ", tl[gl - 1]).strip()
        errs.append({"msg": msg, "kind": kind, "gen_line": gl, "origin": origin, "site": site,
                     "related": related, "text": "\n".join(b["lines"]).rstrip()})
    return errs
