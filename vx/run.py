"""Run Verus on an assembled unit and attribute the results."""
import json
import os
import re
import subprocess
import time

from . import rustscan as rs
from . import unit as U

VERUS = os.environ.get("VERIF_VERUS", "verus")

DEFINITE = (
    "postcondition not satisfied",
    "precondition not satisfied",
    "assertion failed",
    "assertion failure",
    "invariant not satisfied",
    "loop invariant not preserved",
    "loop invariant not satisfied",
    "decreases not satisfied",
    "possible arithmetic underflow/overflow",
    "possible division by zero",
    "possible bit shift underflow/overflow",
    "unreachable code reached",
    "failed this postcondition",
    "cannot prove termination",
    "fails to satisfy `callee.requires(args)`",
    "unable to prove post-condition of closure",
    "could not prove termination",
)
INCONCLUSIVE = (
    "Resource limit (rlimit) exceeded",
    "rlimit",
    "timed out",
)


class UnitResult:
    def __init__(self):
        self.unit = None
        self.status = "ok"          # ok | failed | undecided
        self.reason = ""
        self.functions = {}         # verus fn name -> dict(success, time_us, rlimit, mode)
        self.errors = []            # dict(msg, kind, gen_line, origin, fn, text)
        self.assembled = None
        self.cmd = ""
        self.wall_s = 0.0
        self.smt_ms = 0
        self.stderr = ""
        self.gen_path = ""


def fn_spans(text):
    """(name, first_line, last_line) for every fn with a body in text."""
    m = rs.mask(text)
    spans = []
    for mm in re.finditer(r"\bfn\s+([A-Za-z_][A-Za-z0-9_]*)", m):
        k = mm.end()
        n = len(m)
        body = None
        while k < n:
            c = m[k]
            if c == "{":
                body = k
                break
            if c == ";":
                break
            if c in "([":
                k = rs.match_close(m, k)
            k += 1
        if body is None:
            continue
        try:
            e = rs.match_close(m, body)
        except rs.ScanError:
            continue
        spans.append((mm.group(1), text.count("\n", 0, mm.start()) + 1, text.count("\n", 0, e) + 1))
    return spans


def short(fn):
    """`unit::Arena::delete_branch` / `unit::impl&%3::delete_branch` -> last segment."""
    return fn.split("::")[-1]


def _verus(gen, build_dir, rlimit, extra, timeout, multiple_errors=8):
    cmd = [VERUS, gen, "--output-json", "--time", "--multiple-errors", str(multiple_errors)]
    if rlimit:
        cmd += ["--rlimit", str(rlimit)]
    cmd += list(extra)
    p = subprocess.run(cmd, capture_output=True, text=True, timeout=timeout, cwd=build_dir)
    return cmd, p


_missing = re.compile(r"no method named `(\w+)` found for (?:mutable reference|reference|struct|enum) `([^`]*)`")


def auto_stubs(repo, A, stderr):
    """The changed code calls a method that is not among the extracted items.  Find it in the repository
    (same type, any file an item of this unit came from), and return text declaring it as an external
    stub WITHOUT contract (its effect and result are unconstrained), plus a description."""
    wanted = []
    for mm in _missing.finditer(stderr):
        name, ty = mm.group(1), mm.group(2)
        ty = ty.replace("&mut", "").replace("&", "").strip()
        ty = re.split(r"[<\s]", ty)[0].split("::")[-1]
        if (name, ty) not in wanted:
            wanted.append((name, ty))
    out = []
    files = []
    for io in A.items:
        if io.file not in files:
            files.append(io.file)
    for (name, ty) in wanted:
        done = False
        for f in files:
            src, m = U.load(repo, f)
            for it in rs.items(src, m, 0, len(src)):
                if it.kind != "impl" or it.cfg_test or it.impl_type != ty or it.impl_trait is not None:
                    continue
                for sub in rs.items(src, m, it.body_open + 1, it.end - 1):
                    if sub.kind == "fn" and sub.name == name and sub.body_open is not None:
                        header = src[it.head:it.body_open].strip()
                        sig = src[sub.head:sub.sig_end].strip()
                        sig = re.sub(r"\bpub\b(\s*\([^)]*\))?\s*", "", sig)
                        text = "\n%s {\n    #[verifier::external_body]\n    %s { unimplemented!() }\n}\n" % (header, sig)
                        out.append((text, "%s::%s (%s:%d) is called by changed code but is not under contract: "
                                    "modelled as an external function with unconstrained effect" %
                                    (ty, name, f, U.line_of(src, sub.start))))
                        done = True
                        break
                if done:
                    break
            if done:
                break
        if done:
            continue
        # a provided method of a trait the type implements (the unit instantiates such methods as inherent ones)
        header = None
        for f in files:
            src, m = U.load(repo, f)
            for it in rs.items(src, m, 0, len(src)):
                if it.kind == "impl" and not it.cfg_test and it.impl_type == ty:
                    h = src[it.head:it.body_open].strip()
                    mg = re.match(r"impl\s*(<[^>]*>)?", h)
                    gen = (mg.group(1) or "") if mg else ""
                    tail = h.split(" for ")[-1].strip() if " for " in h else re.sub(r"^impl\s*(<[^>]*>)?\s*", "", h)
                    header = "impl%s %s" % (gen, tail)
                    break
            if header:
                break
        if header:
            for f in files:
                src, m = U.load(repo, f)
                for it in rs.items(src, m, 0, len(src)):
                    if it.kind != "trait" or it.cfg_test:
                        continue
                    for sub in rs.items(src, m, it.body_open + 1, it.end - 1):
                        if sub.kind == "fn" and sub.name == name:
                            sig = src[sub.head:sub.sig_end].strip()
                            text = "\n%s {\n    #[verifier::external_body]\n    %s { unimplemented!() }\n}\n" % (header, sig)
                            out.append((text, "%s::%s (provided by trait %s, %s:%d) is called by changed code but is not under "
                                        "contract: modelled as an external function with unconstrained result" %
                                        (ty, name, it.name, f, U.line_of(src, sub.start))))
                            done = True
                            break
                    if done:
                        break
                if done:
                    break
    return out


def no_decreases_fixups(A, stderr, gen):
    """Changed code contains a loop/recursion without a measure.  Termination of that function is then not
    checked (attribute exec_allows_no_decreases_clause) so that its contract can still be decided."""
    out = []
    spans = fn_spans(A.text)
    errs = parse_errors(stderr, A, gen)
    seen = set()
    for e in errs:
        if "must have a decreases clause" not in e["msg"] or not e["gen_line"]:
            continue
        best = None
        for (nm, a, b) in spans:
            if a <= e["gen_line"] <= b and (best is None or a >= best[1]):
                best = (nm, a, b)
        if best and best[1] not in seen:
            seen.add(best[1])
            out.append((best[1], "termination of %s is not checked: the changed code has a loop or recursion without a measure" % best[0]))
    if not out:
        # diagnostic without a location (loop header produced by a macro): every function that contains a
        # while/loop but no decreases clause at all
        lines = A.text.split("\n")
        for (nm, a, b) in spans:
            body = "\n".join(lines[a - 1:b])
            if re.search(r"\b(while|loop)\b", rs.mask(body)) \
                    and "exec_allows_no_decreases_clause" not in "\n".join(lines[max(0, a - 3):a]) and a not in seen:
                seen.add(a)
                out.append((a, "termination of %s is not checked: the changed code has a loop without a measure" % nm))
    return out


def run_unit(repo, tmpl_path, build_dir, twins=False, rlimit=None, extra=(), timeout=600, suffix=""):
    R = UnitResult()
    name = os.path.splitext(os.path.basename(tmpl_path))[0]
    R.unit = name
    R.auto_stubs = []
    R.stub_info = []     # (method name, takes &mut self) of every auto-stub
    R.noloop_fns = []    # functions that got exec_allows_no_decreases_clause: a new loop/recursion without measure
    t0 = time.time()
    try:
        A = U.assemble(repo, tmpl_path, twins=twins)
    except (U.LostAnchor, rs.ScanError, OSError) as e:
        R.status = "undecided"
        R.reason = "extraction: %s" % e
        R.wall_s = time.time() - t0
        return R
    R.assembled = A
    os.makedirs(build_dir, exist_ok=True)
    gen = os.path.join(build_dir, name + suffix + ("_twins" if twins else "") + ".rs")
    R.gen_path = gen
    p = None
    if twins:
        # vacuity twins only have to be *not provable*: a small resource limit is enough (a twin that runs out of
        # resources is as good as a twin that is refuted), so per-function rlimit attributes are dropped
        A.text = re.sub(r"#\[verifier::rlimit\(\d+\)\]", "", A.text)
        if rlimit is None:
            rlimit = 3
    for attempt in range(3):
        with open(gen, "w", encoding="utf-8") as f:
            f.write(A.text)
        with open(gen + ".map.json", "w") as f:
            json.dump(A.linemap, f)
        try:
            cmd, p = _verus(gen, build_dir, rlimit, extra, timeout, 0 if twins else 8)
        except subprocess.TimeoutExpired:
            R.status = "undecided"
            R.reason = "verus timed out after %ds" % timeout
            R.wall_s = time.time() - t0
            return R
        R.cmd = " ".join(cmd)
        stubs = auto_stubs(repo, A, p.stderr) if "no method named" in p.stderr else []
        stubs = [s_ for s_ in stubs if s_[1] not in R.auto_stubs]
        nodec = no_decreases_fixups(A, p.stderr, gen) if "must have a decreases clause" in p.stderr else []
        nodec = [d for d in nodec if d[1] not in R.auto_stubs]
        if nodec:
            lines = A.text.split("\n")
            for (ln, desc) in sorted(nodec, reverse=True):
                lines.insert(ln - 1, "#[verifier::exec_allows_no_decreases_clause]")
                A.linemap.insert(ln - 1, ("gen", "auto-attr", 0))
                R.auto_stubs.append(desc)
                mfn = re.match(r"termination of (\w+) is not checked", desc)
                if mfn:
                    R.noloop_fns.append(mfn.group(1))
            A.text = "\n".join(lines)
            if not stubs:
                continue
        if not stubs:
            break
        # splice each stub right after the definition of its type (same module), else in front of the closing
        # brace of the verus! block, and retry
        for (t, d) in stubs:
            mt = re.search(r"impl(?:<[^>]*>)?\s+([A-Za-z_][A-Za-z0-9_]*)", t)
            k = -1
            if mt:
                msk = rs.mask(A.text)
                md = re.search(r"\b(?:struct|enum)\s+%s\b" % re.escape(mt.group(1)), msk)
                if md:
                    j = md.end()
                    while j < len(msk) and msk[j] not in "{;":
                        j += 1
                    if j < len(msk):
                        k = (rs.match_close(msk, j) + 1) if msk[j] == "{" else j + 1
            if k < 0:
                k = A.text.rfind("} // verus!")
            if k < 0:
                continue
            add = "\n" + t
            A.text = A.text[:k] + add + A.text[k:]
            nl = add.count("\n")
            line_k = A.text.count("\n", 0, k)
            A.linemap = A.linemap[:line_k + 1] + [("gen", "auto-stub", 0)] * nl + A.linemap[line_k + 1:]
        R.auto_stubs += [d for _, d in stubs]
        for (t, _d) in stubs:
            mn = re.search(r"\bfn\s+(\w+)", t)
            if mn:
                R.stub_info.append((mn.group(1), bool(re.search(r"&\s*(?:'\w+\s+)?mut\s+self", t))))
    R.wall_s = time.time() - t0
    R.stderr = p.stderr
    try:
        out = json.loads(p.stdout[p.stdout.index("{"):])
    except (ValueError, IndexError):
        R.status = "undecided"
        R.reason = "verus produced no JSON (exit %d): %s" % (p.returncode, p.stderr[-2000:])
        return R
    vr = out.get("verification-results", {})
    try:
        mods = out["times-ms"]["smt"]["smt-run-module-times"]
        R.smt_ms = out["times-ms"]["smt"].get("smt-run", 0)
    except KeyError:
        mods = []
    for md in mods:
        for fb in md.get("function-breakdown", []):
            R.functions[fb["function"]] = {
                "success": fb["success"], "time_us": fb["time-micros"],
                "rlimit": fb.get("rlimit", 0), "mode": fb.get("mode:", "")}
    R.errors = parse_errors(p.stderr, A, gen)
    spans = fn_spans(A.text)
    for e in R.errors:
        e["fn"] = None
        if e["gen_line"]:
            best = None
            for (nm, a, b) in spans:
                if a <= e["gen_line"] <= b and (best is None or a >= best[1]):
                    best = (nm, a, b)
            if best:
                e["fn"] = best[0]
    hard = [e for e in R.errors if e["kind"] == "other"]
    if vr.get("encountered-vir-error") or hard or (not mods and not vr.get("success")):
        R.status = "undecided"
        R.reason = "verus did not reach/finish verification: " + "; ".join(e["msg"] for e in hard[:3]) if hard else \
            "verus did not reach verification: %s" % p.stderr[-1500:]
        return R
    if any(not f["success"] for f in R.functions.values()):
        R.status = "failed"
    return R


_err_head = re.compile(r"^(error|warning|note)(\[[A-Z0-9]+\])?: (.*)$")
_loc = re.compile(r"^\s*--> (.*?):(\d+):(\d+)")


def parse_errors(stderr, A, gen):
    blocks = []
    cur = None
    for line in stderr.split("\n"):
        mm = _err_head.match(line)
        if mm:
            if cur:
                blocks.append(cur)
            cur = {"level": mm.group(1), "code": mm.group(2), "msg": mm.group(3), "lines": [line], "locs": []}
        elif cur is not None:
            cur["lines"].append(line)
            ml = _loc.match(line)
            if ml:
                cur["locs"].append((ml.group(1), int(ml.group(2))))
            else:
                # secondary labels:   "16 |   return vec![];"  lines carry their own numbers
                pass
    if cur:
        blocks.append(cur)
    errs = []
    for b in blocks:
        if b["level"] != "error":
            continue
        msg = b["msg"]
        if msg.startswith("aborting due to"):
            continue
        kind = "other"
        low = msg.lower()
        if any(d.lower() in low for d in DEFINITE):
            kind = "definite"
        if any(d.lower() in low for d in INCONCLUSIVE):
            kind = "inconclusive"
        gl = None
        for (fnm, ln) in b["locs"]:
            if os.path.basename(fnm) == os.path.basename(gen):
                gl = ln
                break
        origin = None
        if gl and 1 <= gl <= len(A.linemap):
            origin = A.linemap[gl - 1]
        # every line number mentioned in the block, mapped to origins (for the report)
        related = []
        for ln in b["lines"]:
            m2 = re.match(r"^\s*(\d+)\s*\|", ln)
            if m2:
                g = int(m2.group(1))
                if 1 <= g <= len(A.linemap):
                    o = A.linemap[g - 1]
                    if o not in related:
                        related.append(o)
        site = ""
        if gl:
            tl = A.text.split("\n")
            if 1 <= gl <= len(tl):
                site = re.sub(r"\s+", " ", tl[gl - 1]).strip()
        errs.append({"msg": msg, "kind": kind, "gen_line": gl, "origin": origin, "site": site,
                     "related": related, "text": "\n".join(b["lines"]).rstrip()})
    return errs
