#!/usr/bin/env python3-vt
import json, sys, jsonschema, glob
s = json.load(open('/root/.vp/EVIDENCE.schema.json'))
for p in sorted(glob.glob('/verif/evidence/*.json')):
    jsonschema.validate(json.load(open(p)), s); print('valid', p)
m = json.load(open('/root/.vp/MANIFEST.schema.json'))
try:
    jsonschema.validate(json.load(open('/verif/MANIFEST.json')), m); print('manifest valid')
except FileNotFoundError: print('no manifest yet')
