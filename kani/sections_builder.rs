// Kani harnesses for crates/liwe/src/graph/sections_builder.rs (child module: sees the private fn `ranges`).
// positions: fixed length n, values and `end` fully symbolic under the contract's precondition
// (strictly increasing, all <= end): complete for that n, bounded over n.
use super::ranges;

fn check(positions: &[usize], end: usize) {
    let n = positions.len();
    let mut i = 0;
    while i + 1 < n {
        kani::assume(positions[i] < positions[i + 1]);
        i += 1;
    }
    if n > 0 {
        kani::assume(positions[n - 1] <= end);
    }
    let r = ranges(positions.to_vec(), end);
    if n == 0 {
        assert!(r.len() == 0);
        return;
    }
    let last = positions[n - 1];
    let expect = n - 1 + if last < end { 1 } else { 0 };
    assert!(r.len() == expect);
    let mut k = 0;
    while k < r.len() {
        assert!(r[k].start == positions[k]);
        assert!(r[k].start < r[k].end);
        if k + 1 < r.len() {
            assert!(r[k].end == r[k + 1].start);
        }
        k += 1;
    }
    if r.len() > 0 {
        assert!(r[r.len() - 1].end == if last < end { end } else { last });
    }
}

macro_rules! ranges_harness {
    ($name:ident, $n:expr) => {
        #[kani::proof]
        #[kani::unwind(8)]
        fn $name() {
            let p: [usize; $n] = kani::any();
            let end: usize = kani::any();
            check(&p, end);
        }
    };
}

ranges_harness!(ranges_n0, 0);
ranges_harness!(ranges_n1, 1);
ranges_harness!(ranges_n2, 2);
ranges_harness!(ranges_n3, 3);
ranges_harness!(ranges_n4, 4);
ranges_harness!(ranges_n5, 5);
