// Kani harnesses for crates/liwe/src/markdown/reader.rs (child module: sees private items).
// Included by the hook line `#[cfg(kani)] #[path = "/verif/kani/reader.rs"] mod verif_kani;`.
// Each harness runs the REAL to_line_range / to_inline_range on a line table of fixed length n
// whose entries and the queried offsets are fully symbolic (any strictly increasing table that starts at 0):
// complete for that n, bounded over n.
use super::*;

fn reader_with(ls: &[usize]) -> MarkdownEventsReader {
    let mut r = MarkdownEventsReader::new();
    r.line_starts = ls.to_vec();
    r
}

// executable form of the contract's `last_le`: index of the last entry <= o, 0 if none
fn last_le(ls: &[usize], o: usize) -> (usize, bool) {
    let mut k = 0;
    let mut found = false;
    let mut i = 0;
    while i < ls.len() {
        if ls[i] <= o {
            k = i;
            found = true;
        }
        i += 1;
    }
    (k, found)
}

// the tables the property is about: what line_starts produces (0 first, strictly increasing)
fn assume_line_table(ls: &[usize]) {
    kani::assume(ls[0] == 0);
    let mut i = 1;
    while i < ls.len() {
        kani::assume(ls[i - 1] < ls[i]);
        i += 1;
    }
}

macro_rules! positions_harness {
    ($line:ident, $inline:ident, $n:expr) => {
        #[kani::proof]
        #[kani::unwind(14)]
        fn $line() {
            let ls: [usize; $n] = kani::any();
            let a: usize = kani::any();
            let b: usize = kani::any();
            assume_line_table(&ls);
            let r = reader_with(&ls);
            let out = r.to_line_range(a..b);
            let (s, _) = last_le(&ls, a);
            let (e, _) = last_le(&ls, b);
            assert!(out.start == s);
            assert!(out.end == if e == s { e + 1 } else { e });
        }

        #[kani::proof]
        #[kani::unwind(14)]
        fn $inline() {
            let ls: [usize; $n] = kani::any();
            let a: usize = kani::any();
            let b: usize = kani::any();
            assume_line_table(&ls);
            let r = reader_with(&ls);
            let out = r.to_inline_range(a..b);
            let (s, sf) = last_le(&ls, a);
            let (e, ef) = last_le(&ls, b);
            assert!(out.start.line == s);
            assert!(out.end.line == e);
            assert!(out.start.character == if sf { a - ls[s] } else { 0 });
            assert!(out.end.character == if ef { b - ls[e] } else { 0 });
        }
    };
}

positions_harness!(line_range_n1, inline_range_n1, 1);
positions_harness!(line_range_n2, inline_range_n2, 2);
positions_harness!(line_range_n3, inline_range_n3, 3);
positions_harness!(line_range_n4, inline_range_n4, 4);
positions_harness!(line_range_n5, inline_range_n5, 5);
positions_harness!(line_range_n6, inline_range_n6, 6);
positions_harness!(line_range_n8, inline_range_n8, 8);
positions_harness!(line_range_n10, inline_range_n10, 10);
positions_harness!(line_range_n12, inline_range_n12, 12);

// line_starts (C13): the REAL function on a text of n symbolic bytes that form valid UTF-8 out of one- and two-byte
// characters (every ASCII code incl. "\r", "\n", NUL, and every U+0080..U+07FF character, in every arrangement).
// Bounded over n; three- and four-byte characters are not generated.
// Contract (from the property: a position is the line and column of the byte in the editor's text): the table is
// 0 followed by the BYTE offset just after every '\n' byte, in increasing order - nothing else.
macro_rules! line_starts_harness {
    ($name:ident, $n:expr) => {
        #[kani::proof]
        #[kani::unwind(12)]
        fn $name() {
            let bytes: [u8; $n] = kani::any();
            // valid UTF-8 made of 1- and 2-byte sequences
            let mut i = 0;
            while i < $n {
                if bytes[i] < 0x80 {
                    i += 1;
                } else {
                    kani::assume(bytes[i] >= 0xC2 && bytes[i] <= 0xDF);
                    kani::assume(i + 1 < $n);
                    kani::assume(bytes[i + 1] >= 0x80 && bytes[i + 1] <= 0xBF);
                    i += 2;
                }
            }
            let mut newlines = 0;
            let mut j = 0;
            while j < $n {
                if bytes[j] == b'\n' {
                    newlines += 1;
                }
                j += 1;
            }
            let content = unsafe { std::str::from_utf8_unchecked(&bytes) };
            let ls = line_starts(content);
            assert!(ls.len() == newlines + 1);
            assert!(ls[0] == 0);
            let mut k = 1;
            while k < ls.len() {
                assert!(ls[k] > ls[k - 1]);
                assert!(ls[k] >= 1 && ls[k] <= $n);
                assert!(bytes[ls[k] - 1] == b'\n');
                k += 1;
            }
        }
    };
}
line_starts_harness!(line_starts_n0, 0);
line_starts_harness!(line_starts_n1, 1);
line_starts_harness!(line_starts_n2, 2);
line_starts_harness!(line_starts_n3, 3);
line_starts_harness!(line_starts_n4, 4);
line_starts_harness!(line_starts_n5, 5);
line_starts_harness!(line_starts_n6, 6);
line_starts_harness!(line_starts_n8, 8);
