// Kani harnesses for crates/liwe/src/graph.rs (child module of `graph`: sees `arena::Arena`,
// `graph_node::GraphNode`, `graph_line::Line` through their pub methods).
// Included by `#[cfg(kani)] #[path = "/verif/kani/graph.rs"] mod verif_kani;`.
use super::graph_node::GraphNode;
use crate::model::node::ReferenceType;
use crate::model::Key;
use std::sync::Arc;

// ---------------------------------------------------------------- GraphNode: complete, loop-free
// All ids/line ids symbolic over their full machine domain; payload strings concrete (the functions
// under test never inspect them).

fn key() -> Key {
    Key { relative_path: Arc::new(String::new()) }
}

#[kani::proof]
#[kani::unwind(2)]
fn node_ctor_links() {
    let prev: u64 = kani::any();
    let id: u64 = kani::any();
    let line: usize = kani::any();
    let n = GraphNode::new_leaf(prev, id, line);
    assert!(n.id() == id && n.prev_id() == Some(prev) && n.next_id().is_none() && n.child_id().is_none());
    assert!(n.line_id() == Some(line) && !n.insertable() && !n.is_empty());
    let n = GraphNode::new_section(prev, id, line);
    assert!(n.id() == id && n.prev_id() == Some(prev) && n.next_id().is_none() && n.child_id().is_none());
    assert!(n.line_id() == Some(line) && n.insertable() && n.is_section());
    let n = GraphNode::new_quote(prev, id);
    assert!(n.id() == id && n.prev_id() == Some(prev) && n.next_id().is_none() && n.child_id().is_none());
    assert!(n.line_id().is_none() && n.insertable());
    let n = GraphNode::new_bullet_list(prev, id);
    assert!(n.id() == id && n.prev_id() == Some(prev) && n.next_id().is_none() && n.child_id().is_none() && n.insertable());
    let n = GraphNode::new_ordered_list(prev, id);
    assert!(n.id() == id && n.prev_id() == Some(prev) && n.next_id().is_none() && n.child_id().is_none() && n.insertable());
    let n = GraphNode::new_rule(prev, id);
    assert!(n.id() == id && n.prev_id() == Some(prev) && n.next_id().is_none() && n.child_id().is_none() && !n.insertable());
}

#[kani::proof]
#[kani::unwind(2)]
fn node_ctor_links_payload() {
    let prev: u64 = kani::any();
    let id: u64 = kani::any();
    let n = GraphNode::new_raw_leaf(prev, id, String::new(), None);
    assert!(n.id() == id && n.prev_id() == Some(prev) && n.next_id().is_none() && n.child_id().is_none() && !n.insertable());
    let n = GraphNode::new_ref(prev, id, key(), String::new(), ReferenceType::Regular);
    assert!(n.id() == id && n.prev_id() == Some(prev) && n.next_id().is_none() && n.child_id().is_none() && !n.insertable());
    assert!(n.is_ref());
    let n = GraphNode::new_table(prev, id, Vec::new(), Vec::new(), Vec::new());
    assert!(n.id() == id && n.prev_id() == Some(prev) && n.next_id().is_none() && n.child_id().is_none() && !n.insertable());
    let n = GraphNode::new_root(key(), id, None);
    assert!(n.id() == id && n.prev_id().is_none() && n.next_id().is_none() && n.child_id().is_none() && n.insertable());
    assert!(n.is_root() && n.is_document());
}

#[kani::proof]
#[kani::unwind(2)]
fn node_setters_frame() {
    let prev: u64 = kani::any();
    let id: u64 = kani::any();
    let line: usize = kani::any();
    let a: u64 = kani::any();
    let b: u64 = kani::any();
    // a container kind: both links settable, independently
    let mut n = GraphNode::new_section(prev, id, line);
    n.set_next_id(a);
    assert!(n.next_id() == Some(a) && n.child_id().is_none() && n.id() == id && n.prev_id() == Some(prev) && n.line_id() == Some(line));
    n.set_child_id(b);
    assert!(n.next_id() == Some(a) && n.child_id() == Some(b) && n.id() == id && n.prev_id() == Some(prev) && n.line_id() == Some(line));
    assert!(n.is_parent_of(b) && n.is_prev_of(a));
    let mut q = GraphNode::new_quote(prev, id);
    q.set_child_id(b);
    assert!(q.child_id() == Some(b) && q.next_id().is_none() && q.id() == id && q.prev_id() == Some(prev));
    q.set_next_id(a);
    assert!(q.child_id() == Some(b) && q.next_id() == Some(a));
    let mut l = GraphNode::new_bullet_list(prev, id);
    l.set_child_id(b);
    l.set_next_id(a);
    assert!(l.child_id() == Some(b) && l.next_id() == Some(a) && l.id() == id && l.prev_id() == Some(prev));
    let mut l = GraphNode::new_ordered_list(prev, id);
    l.set_next_id(a);
    l.set_child_id(b);
    assert!(l.child_id() == Some(b) && l.next_id() == Some(a) && l.id() == id && l.prev_id() == Some(prev));
    // leaf kinds: only next
    let mut f = GraphNode::new_leaf(prev, id, line);
    f.set_next_id(a);
    assert!(f.next_id() == Some(a) && f.child_id().is_none() && f.id() == id && f.prev_id() == Some(prev) && f.line_id() == Some(line));
    let mut r = GraphNode::new_rule(prev, id);
    r.set_next_id(a);
    assert!(r.next_id() == Some(a) && r.id() == id && r.prev_id() == Some(prev));
    // the root: only child
    let mut d = GraphNode::new_root(key(), id, None);
    d.set_child_id(b);
    assert!(d.child_id() == Some(b) && d.next_id().is_none() && d.id() == id && d.prev_id().is_none());
}

// No Arena harness: even a 5-node concrete arena (Vec<GraphNode> with the Table/Raw/Reference payload
// variants in the enum) did not leave CBMC in 5 minutes; delete_branch/set_node are covered by Verus only.

