#!/bin/sh
# development helper: rebaseline on the unchanged tree, then regenerate every evidence file with the normal command
cd "$(dirname "$0")"
for p in C01 C03 C04 C05 C07 C13 C20; do ./check $p --rebaseline >/dev/null; done
for p in C01 C03 C04 C05 C07 C13 C20; do ./check $p | tail -1 | cut -c1-110; done
python3 - <<'PY'
import json,glob
for f in sorted(glob.glob('evidence/*.json')):
    e=json.load(open(f)); c=e['coverage']
    print(f, c['obligations'], c['discharged'], 'OK' if c['obligations']==c['discharged'] and e['violations']==0 else 'MISMATCH')
PY
