#!/usr/bin/env python3
"""Self-test: deliberate breakages (and benign refactorings) applied to a scratch
copy of /repo's sources; each entry names the properties whose check must
report a VIOLATION (exit 1) or must stay quiet (exit 0).

usage: selftest/mutants.py [name-filter]
"""
import os, re, shutil, subprocess, sys, json, tempfile

VERIF = os.path.dirname(os.path.dirname(os.path.abspath(__file__)))

# (name, file, old, new, {prop: expected exit code})
M = [
 ("set_next_writes_child", "crates/liwe/src/graph/graph_node.rs",
  "GraphNode::Section(section) => section.next = Some(next),", "GraphNode::Section(section) => section.child = Some(next),", {"C20": 1}),
 ("new_section_swaps_prev_id", "crates/liwe/src/graph/graph_node.rs",
  "        GraphNode::Section(Section {\n            id,\n            prev,", "        GraphNode::Section(Section {\n            id: prev,\n            prev: id,", {"C20": 1}),
 ("new_node_id_len_minus_1", "crates/liwe/src/graph/arena.rs",
  "self.nodes.len() as NodeId", "self.nodes.len().saturating_sub(1) as NodeId", {"C20": 1, "C04": 1}),
 ("set_node_pushes_always", "crates/liwe/src/graph/arena.rs",
  "if id as usize >= self.nodes.len() {", "if id as usize >= self.nodes.len() || true {", {"C20": 1, "C04": 1}),
 ("delete_branch_skips_next", "crates/liwe/src/graph/arena.rs",
  "        self.node(from_id)\n            .next_id()\n            .map(|id| self.delete_branch(id));\n", "", {"C04": 1, "C20": 1}),
 ("delete_branch_no_tombstone", "crates/liwe/src/graph/arena.rs",
  "        self.set_node(from_id, GraphNode::Empty);\n", "", {"C04": 1}),
 ("delete_branch_forgets_line_reset", "crates/liwe/src/graph/arena.rs",
  "            self.lines[line_id as usize] = Line::new(line_id, GraphInlines::new());\n", "", {"C04": 1}),
 ("add_node_and_id_before_link", "crates/liwe/src/graph/builder.rs",
  "        if self.insert {\n            self.graph.node_mut(self.id).set_child_id(node.id());\n            self.insert = false;\n        } else {\n            self.graph.node_mut(self.id).set_next_id(node.id());\n        }\n\n        self.id = node.id();\n        self.graph.add_graph_node(node.clone());\n\n        f(&mut GraphBuilder {\n            id: self.id,",
  "        let cur = self.id;\n        self.id = node.id();\n        if self.insert {\n            self.graph.node_mut(self.id.min(cur + 1)).set_child_id(node.id());\n            self.insert = false;\n        } else {\n            self.graph.node_mut(cur).set_next_id(node.id());\n        }\n\n        self.graph.add_graph_node(node.clone());\n\n        f(&mut GraphBuilder {\n            id: self.id,", {"C20": 1}),
 ("add_node_and_always_child", "crates/liwe/src/graph/builder.rs",
  "            self.graph.node_mut(self.id).set_next_id(node.id());\n        }\n\n        self.id = node.id();",
  "            self.graph.node_mut(self.id).set_child_id(node.id());\n        }\n\n        self.id = node.id();", {"C20": 1, "C01": 1}),
 ("add_node_and_closure_insert_false", "crates/liwe/src/graph/builder.rs",
  "            id: self.id,\n            graph: self.graph,\n            insert: node.insertable(),", "            id: self.id,\n            graph: self.graph,\n            insert: false,", {"C20": 1}),
 ("to_parent_stops_at_first_prev", "crates/liwe/src/graph/builder.rs",
  "        if self.node().is_parent_of(id) {\n            self\n        } else {\n            self.to_parent()\n        }", "        self", {"C20": 1}),
 ("node_key_follows_child", "crates/liwe/src/graph.rs",
  'self.node_key(self.graph_node(id).prev_id().expect("to have a prev_id"))', 'self.node_key(self.graph_node(id).child_id().or(self.graph_node(id).prev_id()).expect("to have a prev_id"))', {"C20": 1}),
 ("update_key_without_delete", "crates/liwe/src/graph.rs",
  "        if id.is_some() {\n            self.arena.delete_branch(*id.unwrap());\n        }\n", "        let _ = id;\n", {"C04": 1}),
 ("build_key_forgets_keys_insert", "crates/liwe/src/graph.rs",
  "        let id = self.arena.new_node_id();\n        self.keys.insert(key.clone(), id);\n        self.arena\n            .set_node(id, GraphNode::new_root(key.clone(), id, None));\n        GraphBuilder::new(self, id)",
  "        let id = self.arena.new_node_id();\n        self.arena\n            .set_node(id, GraphNode::new_root(key.clone(), id, None));\n        GraphBuilder::new(self, id)", {"C20": 1}),
 ("ranges_drops_tail", "crates/liwe/src/graph/sections_builder.rs",
  "    if positions[positions.len() - 1] < end {\n        ranges.push(positions[positions.len() - 1]..end);\n    }\n", "", {"C07": 1, "C01": 1}),
 ("ranges_starts_plus_one", "crates/liwe/src/graph/sections_builder.rs",
  "ranges.push(positions[i]..positions[i + 1]);", "ranges.push(positions[i].saturating_add(1).min(positions[i + 1])..positions[i + 1]);", {"C07": 1}),
 ("leaf_links_line_of_prev", "crates/liwe/src/graph/builder.rs",
  "        let line_id = self.graph.add_line(block);\n        let new_id = self.graph.new_node_id();\n        self.add_node(GraphNode::new_leaf(self.id, new_id, line_id));",
  "        let line_id = self.graph.add_line(block);\n        let new_id = self.graph.new_node_id();\n        self.add_node(GraphNode::new_leaf(self.id, new_id, line_id.saturating_sub(1)));", {"C01": 1}),
 ("append_from_visitor_sets_insert", "crates/liwe/src/graph/builder.rs",
  "    fn append_from_visitor<'b>(&mut self, iter: impl NodeIter<'b>) {\n        self.insert = false;", "    fn append_from_visitor<'b>(&mut self, iter: impl NodeIter<'b>) {\n        self.insert = true;", {"C20": 1}),
 ("insert_from_iter_child_as_sibling", "crates/liwe/src/graph/builder.rs",
  "                iter.child().map(|child| {\n                    builder.insert_from_iter(child);\n                });\n                iter.next().map(|next| {\n                    builder.append_from_visitor(next);\n                });\n            });\n        });\n    }\n\n    pub fn link_node_id",
  "                iter.child().map(|child| {\n                    builder.append_from_visitor(child);\n                });\n                iter.next().map(|next| {\n                    builder.append_from_visitor(next);\n                });\n            });\n        });\n    }\n\n    pub fn link_node_id", {"C20": 1}),
 ("from_markdown_keeps_stale_metadata", "crates/liwe/src/graph.rs",
  "        } else {\n            self.metadata.remove(&key);\n        }\n\n        let mut build_key = self.build_key(&key);", "        }\n\n        let mut build_key = self.build_key(&key);", {"C01": 1}),
 ("index_node_skips_quote_next", "crates/liwe/src/graph/index.rs",
  "                quote.next_id().map(|child_id| {\n                    self.index_node(graph, child_id);\n                });\n", "", {"C05": 1, "C04": 1}),
 ("block_quote_leaves_insert_set", "crates/liwe/src/graph/sections_builder.rs",
  "                self.builder.quote();\n                self.set_lines_range(quote.line_range);", "                self.builder.quote();\n                self.builder.set_insert(true);\n                self.set_lines_range(quote.line_range);", {"C01": 1, "C07": 1}),
 ("block_list_keeps_insert_set", "crates/liwe/src/graph/sections_builder.rs",
  "                self.builder.set_id(id);\n                self.builder.set_insert(false);\n            }\n            OrderedList(list) => {", "                self.builder.set_id(id);\n            }\n            OrderedList(list) => {", {"C01": 1, "C07": 1, "C20": 1}),
 ("block_item_loop_skips_first", "crates/liwe/src/graph/sections_builder.rs",
  "                self.builder.ordered_list();\n                self.builder.set_insert(true);\n                let id = self.builder.id();\n", "                self.builder.ordered_list();\n                let id = self.builder.id();\n", {"C01": 1, "C20": 1}),
 ("benign_block_list_local", "crates/liwe/src/graph/sections_builder.rs",
  "                self.builder.bullet_list();\n                self.builder.set_insert(true);\n                let id = self.builder.id();\n", "                self.builder.bullet_list();\n                let id = self.builder.id();\n                self.builder.set_insert(true);\n", {"C07": 0, "C03": 0}),
 ("line_starts_off_by_one", "crates/liwe/src/markdown/reader.rs",
  "                .map(|(at, _)| at + 1),", "                .map(|(at, _)| at),", {"C13": 1}),
 ("line_starts_counts_cr_too", "crates/liwe/src/markdown/reader.rs",
  "                .filter(|(_, byte)| *byte == b'\\n')", "                .filter(|(_, byte)| *byte == b'\\n' || *byte == b'\\r')", {"C13": 1}),
 ("benign_line_starts_matches", "crates/liwe/src/markdown/reader.rs",
  "                .filter(|(_, byte)| *byte == b'\\n')", "                .filter(|(_, byte)| matches!(byte, b'\\n'))", {"C13": 0}),
 ("new_patch_copies_keys", "crates/liwe/src/graph.rs",
  "            metadata: self.metadata.clone(),\n            ..Default::default()", "            metadata: self.metadata.clone(),\n            keys: self.keys.clone(),\n            ..Default::default()", {"C20": 1}),
 ("link_at_position_box_test", "crates/liwe/src/model/document.rs",
  "        if self.inline_range().contains(&position) && self.is_link() {", "        let r = self.inline_range();\n        if r.start.line <= position.line && position.line <= r.end.line && r.start.character <= position.character && position.character < r.end.character && self.is_link() {", {"C13": 1}),
 ("link_at_position_skips_first_child", "crates/liwe/src/model/document.rs",
  "        self.child_inlines()\n            .iter()\n            .find_map(|child| child.link_at_position(position))\n    }\n}\n\n#[derive(Clone, Copy, PartialEq, Eq, Hash, Debug)]\npub enum LinkType", "        self.child_inlines()\n            .iter()\n            .skip(1)\n            .find_map(|child| child.link_at_position(position))\n    }\n}\n\n#[derive(Clone, Copy, PartialEq, Eq, Hash, Debug)]\npub enum LinkType", {"C13": 2}),
 ("benign_link_at_position_spelled_out", "crates/liwe/src/model/document.rs",
  "        if self.inline_range().contains(&position) && self.is_link() {", "        let r = self.inline_range();\n        if self.is_link() && r.start <= position && position < r.end {", {"C13": 0}),
 ("benign_add_node_and_match_bool", "crates/liwe/src/graph/builder.rs",
  "        if self.insert {\n            self.graph.node_mut(self.id).set_child_id(node.id());\n            self.insert = false;\n        } else {\n            self.graph.node_mut(self.id).set_next_id(node.id());\n        }\n\n        self.id = node.id();",
  "        let new_id = node.id();\n        if self.insert {\n            self.insert = false;\n            self.graph.node_mut(self.id).set_child_id(new_id);\n        } else {\n            self.graph.node_mut(self.id).set_next_id(new_id);\n        }\n\n        self.id = new_id;", {"C20": 0, "C01": 0}),
 ("benign_delete_branch_match", "crates/liwe/src/graph/arena.rs",
  "        if let Some(line_id) = self.node(from_id).line_id() {\n            self.lines[line_id as usize] = Line::new(line_id, GraphInlines::new());\n        }\n",
  "        match self.node(from_id).line_id() {\n            Some(line_id) => {\n                self.lines[line_id as usize] = Line::new(line_id, GraphInlines::new());\n            }\n            None => {}\n        }\n", {"C04": 0, "C20": 0}),
 ("benign_node_key_if_let", "crates/liwe/src/graph.rs",
  "        match self.graph_node(id).key() {\n            Some(key) => key.clone(),\n            None => self.node_key(self.graph_node(id).prev_id().expect(\"to have a prev_id\")),\n        }",
  "        if let Some(key) = self.graph_node(id).key() {\n            return key.clone();\n        }\n        self.node_key(self.graph_node(id).prev_id().expect(\"to have a prev_id\"))", {"C20": 0}),
 ("benign_pop_block_else", "crates/liwe/src/markdown/reader.rs",
  "        if self.blocks_stack.len() == 0 {\n            self.blocks.push(block);\n            return;\n        }\n\n        if self.top_block().is_container() {\n            self.top_block().append_block(block);\n        }",
  "        if self.blocks_stack.is_empty() {\n            self.blocks.push(block);\n        } else if self.top_block().is_container() {\n            self.top_block().append_block(block);\n        }", {"C01": 0, "C03": 0}),
 ("benign_set_next_id_arm_order", "crates/liwe/src/graph/graph_node.rs",
  "            GraphNode::Section(section) => section.next = Some(next),\n            GraphNode::Quote(quote) => quote.next = Some(next),\n            GraphNode::BulletList(list) => list.next = Some(next),",
  "            GraphNode::Quote(quote) => quote.next = Some(next),\n            GraphNode::BulletList(list) => list.next = Some(next),\n            GraphNode::Section(section) => section.next = Some(next),", {"C20": 0}),
 ("benign_to_line_range_shadow", "crates/liwe/src/markdown/reader.rs",
  "        if start == end {\n            end += 1;\n        }\n\n        start..end",
  "        let end = if start == end { end + 1 } else { end };\n\n        start..end", {"C13": 0}),
 ("benign_link_at_position_conjunct_order", "crates/liwe/src/model/document.rs",
  "        if self.inline_range().contains(&position) && self.is_link() {", "        if self.is_link() && self.inline_range().contains(&position) {", {"C13": 0}),
 ("benign_ranges_early_return_first", "crates/liwe/src/graph/sections_builder.rs",
  "    let mut ranges: Vec<Range> = vec![];\n\n    if positions.is_empty() {\n        return vec![];\n    }\n",
  "    if positions.is_empty() {\n        return vec![];\n    }\n\n    let mut ranges: Vec<Range> = vec![];\n", {"C07": 0, "C01": 0}),
 ("benign_update_key_helper_extracted", "crates/liwe/src/graph.rs",
  "        if id.is_some() {\n            self.arena.delete_branch(*id.unwrap());\n        }\n\n        self.from_markdown(key, content, MarkdownReader::new());\n\n        self\n    }\n",
  "        if id.is_some() {\n            let old_root = *id.unwrap();\n            self.drop_old_version(old_root);\n        }\n\n        self.from_markdown(key, content, MarkdownReader::new());\n\n        self\n    }\n\n    fn drop_old_version(&mut self, root: NodeId) {\n        self.arena.delete_branch(root);\n    }\n", {"C04": 0, "C20": 0}),
 ("update_key_helper_skips_first_note", "crates/liwe/src/graph.rs",
  "        if id.is_some() {\n            self.arena.delete_branch(*id.unwrap());\n        }\n\n        self.from_markdown(key, content, MarkdownReader::new());\n\n        self\n    }\n",
  "        if id.is_some() {\n            let old_root = *id.unwrap();\n            self.drop_old_version(old_root);\n        }\n\n        self.from_markdown(key, content, MarkdownReader::new());\n\n        self\n    }\n\n    fn drop_old_version(&mut self, root: NodeId) {\n        if root > 0 {\n            self.arena.delete_branch(root);\n        }\n    }\n", {"C04": 1}),
 ("process_blocks_forgets_set_insert", "crates/liwe/src/graph/sections_builder.rs",
  "        self.builder.set_insert(true);\n        let first_header = first_header(range.clone(), content);", "        let first_header = first_header(range.clone(), content);", {"C20": 1, "C01": 1}),
 ("process_blocks_blocks_after_sections", "crates/liwe/src/graph/sections_builder.rs",
  "        for i in pre_header_range.clone() {\n            self.block(&content[i]);\n        }\n\n        if first_header_level(range.clone(), content).is_none() {\n            return;\n        }\n",
  "        if first_header_level(range.clone(), content).is_none() {\n            for i in pre_header_range.clone() {\n                self.block(&content[i]);\n            }\n            return;\n        }\n", {"C07": 1, "C01": 1}),
 ("process_blocks_header_into_block", "crates/liwe/src/graph/sections_builder.rs",
  "        let pre_header_range = range.start..first_header.unwrap_or(range.end);", "        let pre_header_range = range.start..first_header.map(|h| h + 1).unwrap_or(range.end);", {"C03": 1, "C07": 1}),
 ("benign_process_blocks_local", "crates/liwe/src/graph/sections_builder.rs",
  "        let pre_header_range = range.start..first_header.unwrap_or(range.end);", "        let pre_header_end = first_header.unwrap_or(range.end);\n        let pre_header_range = range.start..pre_header_end;", {"C07": 0, "C20": 0}),
 ("update_key_skips_blank", "crates/liwe/src/graph.rs",
  "        self.from_markdown(key, content, MarkdownReader::new());\n\n        self", "        if !content.is_empty() {\n            self.from_markdown(key, content, MarkdownReader::new());\n        }\n\n        self", {"C20": 1, "C04": 1}),
 # positions chain / first_header helpers (rules T15, T12b)
 ("positions_level_strict", "crates/liwe/src/graph/sections_builder.rs",
  "header.level <= first_header_level(range.clone(), content).unwrap()", "header.level < first_header_level(range.clone(), content).unwrap()", {"C07": 1}),
 ("positions_skip_first_heading", "crates/liwe/src/graph/sections_builder.rs",
  ".filter(|&x| x >= first_header.unwrap_or(range.start))", ".filter(|&x| x > first_header.unwrap_or(range.start))", {"C07": 1}),
 ("positions_level_plus_one", "crates/liwe/src/graph/sections_builder.rs",
  "header.level <= first_header_level(range.clone(), content).unwrap()", "header.level <= first_header_level(range.clone(), content).unwrap() + 1", {"C07": 1}),
 ("benign_positions_end_exclusive", "crates/liwe/src/graph/sections_builder.rs",
  ".filter(|&x| x <= range.end)", ".filter(|&x| x < range.end)", {"C07": 0, "C01": 0}),
 ("positions_window_overshoots", "crates/liwe/src/graph/sections_builder.rs",
  "        let positions = content\n            .iter()\n            .positions(|x| match x {\n                Header(header) => {\n                    header.level <= first_header_level(range.clone(), content).unwrap()\n                }\n                _ => false,\n            })\n            .filter(|&x| x >= first_header.unwrap_or(range.start))\n            .filter(|&x| x <= range.end)\n            .collect_vec();",
  "        let start = first_header.unwrap_or(range.start);\n        let positions = content\n            .iter()\n            .skip(start)\n            .take(range.len())\n            .positions(|x| match x {\n                Header(header) => {\n                    header.level <= first_header_level(range.clone(), content).unwrap()\n                }\n                _ => false,\n            })\n            .map(|x| x + start)\n            .collect_vec();", {"C07": 1}),
 ("benign_positions_window_exact", "crates/liwe/src/graph/sections_builder.rs",
  "        let positions = content\n            .iter()\n            .positions(|x| match x {\n                Header(header) => {\n                    header.level <= first_header_level(range.clone(), content).unwrap()\n                }\n                _ => false,\n            })\n            .filter(|&x| x >= first_header.unwrap_or(range.start))\n            .filter(|&x| x <= range.end)\n            .collect_vec();",
  "        let start = first_header.unwrap_or(range.start);\n        let positions = content\n            .iter()\n            .skip(start)\n            .take(range.end - start)\n            .positions(|x| match x {\n                Header(header) => {\n                    header.level <= first_header_level(range.clone(), content).unwrap()\n                }\n                _ => false,\n            })\n            .map(|x| x + start)\n            .collect_vec();", {"C07": 0, "C03": 0}),
 ("first_header_level_reversed", "crates/liwe/src/graph/sections_builder.rs",
  "    range.into_iter().find_map(|i| match content[i].clone() {", "    range.into_iter().rev().find_map(|i| match content[i].clone() {", {"C07": 2}),
 ("first_header_skips_range_start", "crates/liwe/src/graph/sections_builder.rs",
  "    range.into_iter().find(|i| match content[*i].clone() {", "    (range.start + 1..range.end).into_iter().find(|i| match content[*i].clone() {", {"C07": 1}),
 ("child_inlines_image_has_no_kids", "crates/liwe/src/model/document.rs",
  "            DocumentInline::Image(image) => image.inlines.iter().collect(),", "            DocumentInline::Image(_) => vec![],", {"C13": 1}),
 # benign refactorings: must not alarm
 ("benign_process_section_local", "crates/liwe/src/graph/sections_builder.rs",
  "        self.section_block(&blocks[range.start]);\n", "        let first = &blocks[range.start];\n        self.section_block(first);\n", {"C07": 0, "C20": 0}),
 ("benign_from_markdown_reorder", "crates/liwe/src/graph.rs",
  "        self.nodes_map.insert(key.clone(), nodes_map.clone());\n        self.global_nodes_map.extend(nodes_map);\n\n        let mut index = RefIndex::new();\n        index.index_node(self, id);\n        self.index.merge(index);\n\n        self.extract_ref_text(&key)\n            .map(|text| self.keys_to_ref_text.insert(key, text));\n    }\n\n    pub fn to_markdown",
  "        self.global_nodes_map.extend(nodes_map.clone());\n        self.nodes_map.insert(key.clone(), nodes_map);\n\n        let mut index = RefIndex::new();\n        index.index_node(self, id);\n        self.index.merge(index);\n\n        self.extract_ref_text(&key)\n            .map(|text| self.keys_to_ref_text.insert(key, text));\n    }\n\n    pub fn to_markdown", {"C01": 0, "C04": 0}),
 ("benign_index_if_let", "crates/liwe/src/graph/index.rs",
  "                leaf.next_id().map(|child_id| {\n                    self.index_node(graph, child_id);\n                });", "                if let Some(child_id) = leaf.next_id() {\n                    self.index_node(graph, child_id);\n                }", {"C05": 0}),
 ("benign_projector_level_local", "crates/liwe/src/model/projector.rs",
  "                blocks.push(GraphBlock::Header(\n                    self.header_level as u8 + 1,\n                    iter.inlines(),\n                ));", "                let level = self.header_level as u8 + 1;\n                blocks.push(GraphBlock::Header(level, iter.inlines()));", {"C07": 0}),
 ("benign_update_key_if_let", "crates/liwe/src/graph.rs",
  "        let id = self.keys.get(&key);\n        if id.is_some() {\n            self.arena.delete_branch(*id.unwrap());\n        }", "        if let Some(id) = self.keys.get(&key) {\n            self.arena.delete_branch(*id);\n        }", {"C04": 0}),
 ("benign_builder_match_for_if", "crates/liwe/src/graph/builder.rs",
  "    pub fn link_node_id(&mut self, node_id: NodeId) {\n        if self.insert {\n            self.graph.node_mut(self.id).set_child_id(node_id);\n            self.insert = false;\n        } else {\n            self.graph.node_mut(self.id).set_next_id(node_id);\n        }",
  "    pub fn link_node_id(&mut self, node_id: NodeId) {\n        match self.insert {\n            true => {\n                self.graph.node_mut(self.id).set_child_id(node_id);\n                self.insert = false;\n            }\n            false => self.graph.node_mut(self.id).set_next_id(node_id),\n        }", {"C20": 0}),
 ("benign_rename_local", "crates/liwe/src/graph/sections_builder.rs",
  "let mut ranges: Vec<Range> = vec![];", "let mut ranges: Vec<Range> = Vec::new();", {"C07": 0}),
 ("benign_if_let_for_map", "crates/liwe/src/graph/arena.rs",
  "        self.node(from_id)\n            .child_id()\n            .map(|id| self.delete_branch(id));", "        if let Some(id) = self.node(from_id).child_id() {\n            self.delete_branch(id);\n        }", {"C04": 0}),
 ("benign_extra_accessor", "crates/liwe/src/graph/arena.rs",
  "    pub fn nodes(&self) -> &Vec<GraphNode> {", "    pub fn len(&self) -> usize {\n        self.nodes.len()\n    }\n\n    pub fn nodes(&self) -> &Vec<GraphNode> {", {"C20": 0}),
 ("benign_reorder_independent", "crates/liwe/src/graph.rs",
  "        let id = self.arena.new_node_id();\n        self.arena.set_node(id, node);\n        id", "        let id = self.arena.new_node_id();\n        self.arena.set_node(id, node);\n        return id;", {"C20": 0}),
]

def main():
    flt = sys.argv[1] if len(sys.argv) > 1 else ""
    scratch = tempfile.mkdtemp(prefix="vx_selftest_")
    try:
        subprocess.check_call(["rsync", "-a", "--exclude", "target", "--exclude", ".git", "/repo/", scratch + "/"])
        ok = True
        results = []
        for (name, f, old, new, exp) in M:
            if flt and flt not in name:
                continue
            p = os.path.join(scratch, f)
            src = open(p).read()
            if src.count(old) != 1:
                print("SELFTEST-BROKEN %s: pattern matches %d times" % (name, src.count(old)))
                ok = False
                continue
            open(p, "w").write(src.replace(old, new))
            try:
                for prop, want in exp.items():
                    env = dict(os.environ, VERIF_REPO=scratch, VERIF_SELFTEST="1")
                    # Verus decides almost every entry; only the entries aimed at a Kani-only function run the Kani groups too
                    cmd = [os.path.join(VERIF, "check"), prop] + ([] if "line_starts" in name else ["--no-kani"])
                    r = subprocess.run(cmd, env=env, capture_output=True, text=True)
                    good = (r.returncode == want)
                    ob = [l for l in r.stdout.split("\n") if l.startswith("failed obligation") or l.startswith("UNDECIDED") or l.startswith("   ") or l.startswith("VIOLATION")]
                    print("%s %-38s %s want=%d got=%d %s" % ("ok  " if good else "MISS", name, prop, want, r.returncode, "; ".join(ob)[:300]))
                    results.append((name, prop, want, r.returncode))
                    ok = ok and good
            finally:
                open(p, "w").write(src)
        print("SELFTEST", "PASS" if ok else "FAIL")
        return 0 if ok else 1
    finally:
        shutil.rmtree(scratch, ignore_errors=True)
        # the Kani build directory of this scratch copy (one per repository path, see vx/kx.py)
        import hashlib
        shutil.rmtree(os.path.join(VERIF, "build", "kani_" + hashlib.sha1(os.path.realpath(scratch).encode()).hexdigest()[:10]),
                      ignore_errors=True)

if __name__ == "__main__":
    sys.exit(main())
