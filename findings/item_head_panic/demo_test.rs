// Demonstration of the defect behind the known finding on SectionsBuilder::block (C03; shared by the C01, C07
// and C20 checks): the call `self.process_section(0..b.len(), b)` hands section_block the first block of a list
// item, and section_block only has arms for text (Para, Plain, Header), Div and lists - a list item that starts
// with a block quote, a code block, a thematic break or a table reaches its `panic!("section block panic ..")`.
// Each of these inputs kills the language server / CLI when the note is loaded.
//
// copy to crates/liwe/tests/item_head_panic_demo.rs and run
//   cargo test -p liwe --offline --test item_head_panic_demo
use liwe::graph::Graph;
use liwe::markdown::MarkdownReader;
use liwe::model::Key;

fn load(input: &str) {
    let mut graph = Graph::new();
    graph.from_markdown(Key::from_file_name("k"), input, MarkdownReader::new());
}

#[test] fn item_starting_with_a_quote() { load("- > q\n"); }
#[test] fn item_starting_with_a_code_block() { load("- ```\n  code\n  ```\n"); }
#[test] fn item_starting_with_a_rule() { load("- * * *\n"); }
#[test] fn item_starting_with_a_table() { load("- | a |\n  |---|\n  | b |\n"); }
#[test] fn nested_item_starting_with_a_quote() { load("- - > q\n"); }
