// Demonstration of the defect found by the contract on RefIndex::index_node (C05 / C04):
// a block reference (or an inline link) that follows a table is not indexed when the note is
// (re)parsed through update_key / from_markdown, because the Table arm of index_node does not
// follow `next`.  A fresh import indexes every arena slot directly and therefore finds it.
//
// copy to crates/liwe/tests/index_table_next_demo.rs and run
//   cargo test -p liwe --offline --test index_table_next_demo
use liwe::graph::Graph;
use liwe::model::config::MarkdownOptions;
use liwe::model::{Key, State};

const A: &str = "# a\n\n| x | y |\n|---|---|\n| 1 | 2 |\n\n[target](t)\n\nsee [target](t) inline\n";
const T: &str = "# target\n";

fn fresh() -> Graph {
    let mut state = State::new();
    state.insert("a".to_string(), A.to_string());
    state.insert("t".to_string(), T.to_string());
    Graph::import(&state, MarkdownOptions::default())
}

#[test]
fn backlinks_after_table_survive_an_update() {
    let key_t = Key::from_file_name("t");
    let fresh_graph = fresh();
    let fresh_block = fresh_graph.get_block_references_to(&key_t).len();
    let fresh_inline = fresh_graph.get_inline_references_to(&key_t).len();
    assert_eq!(1, fresh_block, "fresh import finds the block reference after the table");
    assert_eq!(1, fresh_inline, "fresh import finds the inline link after the table");

    // the same text sent again as an edit: everything must be as after a fresh start
    let mut edited = fresh();
    edited.update_key(Key::from_file_name("a"), A);
    assert_eq!(fresh_block, edited.get_block_references_to(&key_t).len(), "block backlink lost after update");
    assert_eq!(fresh_inline, edited.get_inline_references_to(&key_t).len(), "inline backlink lost after update");
}
