// Demonstration of the defect behind the obligation
//   SectionsBuilder::block:  (*block is a list without any item content) ==> !final(self).builder.insert
// (C01, C07, C20): for a list whose items are all empty no item node is created, the builder stays on the list
// node with insert = true, and the block that FOLLOWS the list is linked as the list's child.  A paragraph or a
// heading after an empty list therefore turns into a list item.  Fixed in /repo by a "fix:" commit
// (set_insert(false) after the items of a list).
//
// copy to crates/liwe/tests/empty_list_demo.rs and run
//   cargo test -p liwe --offline --test empty_list_demo
use liwe::graph::Graph;
use liwe::markdown::MarkdownReader;
use liwe::model::Key;

fn fmt(input: &str) -> String {
    let mut graph = Graph::new();
    graph.from_markdown(Key::from_file_name("k"), input, MarkdownReader::new());
    graph.to_markdown(&Key::from_file_name("k"))
}

#[test]
fn paragraph_after_an_empty_list_stays_a_paragraph() {
    let out = fmt("-\n\npara\n");
    assert!(!out.contains("- para"), "paragraph became a list item: {:?}", out);
    let out = fmt("1.\n\npara\n");
    assert!(!out.contains("1."), "paragraph became a list item: {:?}", out);
}

#[test]
fn heading_after_an_empty_list_stays_a_heading() {
    let out = fmt("-\n-\n\n# h\n\npara\n");
    assert!(out.contains("# h"), "heading lost its level: {:?}", out);
    assert!(!out.contains("- h"), "heading became a list item: {:?}", out);
}
