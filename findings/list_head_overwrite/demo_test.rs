// Demonstration of the defect behind the known finding on SectionsBuilder::process_section (C01, C20):
// when a list item starts with a list, section_block merges the nested items into the enclosing list and
// leaves the builder on the last merged item; process_section then calls process_blocks for the rest of
// the outer item, which sets insert = true on that item and overwrites the child it already has.
//
// copy to crates/liwe/tests/list_head_overwrite_demo.rs and run
//   cargo test -p liwe --offline --test list_head_overwrite_demo
use liwe::graph::Graph;
use liwe::markdown::MarkdownReader;
use liwe::model::Key;

#[test]
fn text_under_a_nested_first_item_survives() {
    let input = "- - a\n\n    b\n\n  c\n";
    let mut graph = Graph::new();
    graph.from_markdown(Key::from_file_name("k"), input, MarkdownReader::new());
    let out = graph.to_markdown(&Key::from_file_name("k"));
    assert!(out.contains('a'), "a lost: {:?}", out);
    assert!(out.contains('c'), "c lost: {:?}", out);
    assert!(out.contains('b'), "b lost: {:?}", out);
    // and the orphaned node is still live in the arena although no root reaches it
}
