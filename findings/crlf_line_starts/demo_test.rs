// Demonstration of the defect in markdown/reader.rs::line_starts (C13): the table of line starts was built from
// `content.lines().map(|line| line.len() + 1)`, i.e. it assumes every line ends in exactly one byte.  `lines()`
// strips "\r\n" as well, so in a CRLF document every line start after the first is one byte too small per
// preceding line, and the line numbers / columns derived from byte offsets (block line ranges used to find the
// block under the cursor, link ranges sent to the editor) drift: they are wrong from the second CRLF on.
// Fixed in /repo by a "fix:" commit (line starts are the positions after each '\n' byte).
//
// copy to crates/liwe/tests/crlf_demo.rs and run
//   cargo test -p liwe --offline --test crlf_demo
use liwe::markdown::reader::MarkdownEventsReader;
use liwe::model::document::{DocumentBlock, DocumentInline};

fn blocks(content: &str) -> Vec<(usize, usize)> {
    MarkdownEventsReader::new()
        .read(content)
        .iter()
        .map(|b| match b {
            DocumentBlock::Para(p) => (p.line_range.start, p.line_range.end),
            _ => panic!("unexpected block"),
        })
        .collect()
}

#[test]
fn block_lines_are_the_same_for_lf_and_crlf() {
    let lf = "one\n\ntwo\n\nthree\n\nfour\n";
    let crlf = lf.replace('\n', "\r\n");
    assert_eq!(vec![(0, 1), (2, 3), (4, 5), (6, 7)], blocks(lf));
    assert_eq!(blocks(lf), blocks(&crlf));
}

#[test]
fn link_position_in_a_crlf_document() {
    let crlf = "one\r\n\r\ntwo\r\n\r\nthree\r\n\r\nsee [l](t)\r\n";
    let doc = MarkdownEventsReader::new().read(crlf);
    let DocumentBlock::Para(p) = &doc[3] else { panic!() };
    let link = p.inlines.iter().find_map(|i| match i { DocumentInline::Link(l) => Some(l.clone()), _ => None }).unwrap();
    assert_eq!((6, 4), (link.inline_range.start.line, link.inline_range.start.character));
    assert_eq!((6, 10), (link.inline_range.end.line, link.inline_range.end.character));
}
