#!/bin/sh
# Offline setup: nothing to build for the Verus engine (python3 + verus on PATH).
set -e
cd "$(dirname "$0")"
mkdir -p build evidence replays
command -v verus >/dev/null
python3 -c "import vx.run, vx.unit, vx.report"
echo setup-ok
