use vstd::prelude::*;
verus! {
global size_of usize == 8;
type NodeId = u64;
type MaybeNodeId = Option<NodeId>;

#[derive(Debug, PartialEq)]
enum GraphNode { Empty, Document(Document), Section(Section), Leaf(Leaf) }
impl Clone for GraphNode {
    #[verifier::external_body]
    fn clone(&self) -> (r: Self) ensures r == *self { unimplemented!() }
}
#[derive(Debug, PartialEq)]
struct Document { id: NodeId, child: MaybeNodeId }
#[derive(Debug, PartialEq)]
struct Section { id: NodeId, prev: NodeId, next: MaybeNodeId, child: MaybeNodeId }
#[derive(Debug, PartialEq)]
struct Leaf { id: NodeId, prev: NodeId, next: MaybeNodeId }

impl GraphNode {
    spec fn child_s(&self) -> MaybeNodeId {
        match self {
            GraphNode::Document(document) => document.child,
            GraphNode::Section(section) => section.child,
            _ => None,
        }
    }
    spec fn prev_s(&self) -> MaybeNodeId {
        match self {
            GraphNode::Section(section) => Some(section.prev),
            GraphNode::Leaf(leaf) => Some(leaf.prev),
            _ => None,
        }
    }
    spec fn next_s(&self) -> MaybeNodeId {
        match self {
            GraphNode::Section(section) => section.next,
            GraphNode::Leaf(leaf) => leaf.next,
            _ => None,
        }
    }
    fn child_id(&self) -> (r: MaybeNodeId)
        ensures r == self.child_s()
    {
        match self {
            GraphNode::Document(document) => document.child,
            GraphNode::Section(section) => section.child,
            _ => None,
        }
    }
    fn next_id(&self) -> (r: MaybeNodeId)
        requires !(*self is Empty)
        ensures r == self.next_s()
    {
        match self {
            GraphNode::Section(section) => section.next,
            GraphNode::Leaf(leaf) => leaf.next,
            GraphNode::Document(_) => None,
            GraphNode::Empty => panic!(),
        }
    }
}

spec fn kid(s: Seq<GraphNode>, r: int, o: MaybeNodeId) -> bool {
    o is Some && r < o.unwrap() < s.len()
}

spec fn sub(s: Seq<GraphNode>, r: int) -> Set<int>
    decreases s.len() - r
{
    if 0 <= r < s.len() {
        let c = s[r].child_s();
        let m = s[r].next_s();
        set![r]
          + (if kid(s, r, c) { sub(s, c.unwrap() as int) } else { Set::empty() })
          + (if kid(s, r, m) { sub(s, m.unwrap() as int) } else { Set::empty() })
    } else {
        Set::empty()
    }
}

spec fn tree_ok(s: Seq<GraphNode>, r: int) -> bool
    decreases s.len() - r
{
    &&& 0 <= r < s.len()
    &&& !(s[r] is Empty)
    &&& (s[r].child_s() is Some ==> kid(s, r, s[r].child_s()) && tree_ok(s, s[r].child_s().unwrap() as int))
    &&& (s[r].next_s() is Some ==> kid(s, r, s[r].next_s()) && tree_ok(s, s[r].next_s().unwrap() as int))
    &&& (s[r].child_s() is Some && s[r].next_s() is Some ==>
            sub(s, s[r].child_s().unwrap() as int).disjoint(sub(s, s[r].next_s().unwrap() as int)))
}

proof fn lemma_sub_lower(s: Seq<GraphNode>, r: int, x: int)
    requires sub(s, r).contains(x)
    ensures r <= x < s.len()
    decreases s.len() - r
{
    if 0 <= r < s.len() {
        let c = s[r].child_s();
        let m = s[r].next_s();
        if kid(s, r, c) && sub(s, c.unwrap() as int).contains(x) { lemma_sub_lower(s, c.unwrap() as int, x); }
        if kid(s, r, m) && sub(s, m.unwrap() as int).contains(x) { lemma_sub_lower(s, m.unwrap() as int, x); }
    }
}

proof fn lemma_sub_frame(s: Seq<GraphNode>, t: Seq<GraphNode>, r: int)
    requires
        s.len() == t.len(),
        tree_ok(s, r),
        forall|i: int| sub(s, r).contains(i) ==> t[i] == s[i],
    ensures
        tree_ok(t, r),
        sub(t, r) == sub(s, r),
    decreases s.len() - r
{
    let c = s[r].child_s();
    let m = s[r].next_s();
    assert(sub(s, r).contains(r));
    if c is Some {
        assert forall|i: int| sub(s, c.unwrap() as int).contains(i) implies t[i] == s[i] by {
            assert(sub(s, r).contains(i));
        }
        lemma_sub_frame(s, t, c.unwrap() as int);
    }
    if m is Some {
        assert forall|i: int| sub(s, m.unwrap() as int).contains(i) implies t[i] == s[i] by {
            assert(sub(s, r).contains(i));
        }
        lemma_sub_frame(s, t, m.unwrap() as int);
    }
}


spec fn live(s: Seq<GraphNode>, i: int) -> bool { 0 <= i < s.len() && !(s[i] is Empty) }

spec fn node_ok(s: Seq<GraphNode>, i: int) -> bool {
    let n = s[i];
    &&& (n.child_s() is Some ==> kid(s, i, n.child_s()) && live(s, n.child_s().unwrap() as int)
            && s[n.child_s().unwrap() as int].prev_s() == Some(i as u64))
    &&& (n.next_s() is Some ==> kid(s, i, n.next_s()) && live(s, n.next_s().unwrap() as int)
            && s[n.next_s().unwrap() as int].prev_s() == Some(i as u64))
    &&& (n.child_s() is Some && n.next_s() is Some ==> n.child_s().unwrap() != n.next_s().unwrap())
    &&& (n.prev_s() is Some ==> {
            let p = n.prev_s().unwrap() as int;
            p < i && live(s, p) && ((s[p].child_s() == Some(i as u64)) != (s[p].next_s() == Some(i as u64)))
        })
}

spec fn forest(s: Seq<GraphNode>) -> bool {
    forall|i: int| #[trigger] live(s, i) ==> node_ok(s, i)
}

proof fn lemma_sub_live(s: Seq<GraphNode>, r: int, x: int)
    requires forest(s), live(s, r), sub(s, r).contains(x)
    ensures live(s, x)
    decreases s.len() - r
{
    let c = s[r].child_s();
    let m = s[r].next_s();
    assert(node_ok(s, r));
    if kid(s, r, c) && sub(s, c.unwrap() as int).contains(x) { lemma_sub_live(s, c.unwrap() as int, x); }
    if kid(s, r, m) && sub(s, m.unwrap() as int).contains(x) { lemma_sub_live(s, m.unwrap() as int, x); }
}

// a non-root member of a subtree has its prev inside the same subtree
proof fn lemma_prev_in_sub(s: Seq<GraphNode>, r: int, x: int)
    requires forest(s), live(s, r), sub(s, r).contains(x), x != r
    ensures s[x].prev_s() is Some, sub(s, r).contains(s[x].prev_s().unwrap() as int)
    decreases s.len() - r
{
    let c = s[r].child_s();
    let m = s[r].next_s();
    assert(node_ok(s, r));
    if kid(s, r, c) && sub(s, c.unwrap() as int).contains(x) {
        let ci = c.unwrap() as int;
        if x == ci {
            assert(sub(s, r).contains(r));
        } else {
            lemma_prev_in_sub(s, ci, x);
        }
    } else if kid(s, r, m) && sub(s, m.unwrap() as int).contains(x) {
        let mi = m.unwrap() as int;
        if x == mi {
            assert(sub(s, r).contains(r));
        } else {
            lemma_prev_in_sub(s, mi, x);
        }
    }
}

proof fn lemma_disjoint_at(s: Seq<GraphNode>, r: int, x: int)
    requires forest(s), live(s, r), s[r].child_s() is Some, s[r].next_s() is Some,
    ensures !(sub(s, s[r].child_s().unwrap() as int).contains(x) && sub(s, s[r].next_s().unwrap() as int).contains(x))
    decreases x
{
    let c = s[r].child_s().unwrap() as int;
    let m = s[r].next_s().unwrap() as int;
    assert(node_ok(s, r));
    if sub(s, c).contains(x) && sub(s, m).contains(x) {
        lemma_sub_lower(s, c, x);
        lemma_sub_lower(s, m, x);
        if x == c {
            lemma_prev_in_sub(s, m, x);
            lemma_sub_lower(s, m, r);
        } else if x == m {
            lemma_prev_in_sub(s, c, x);
            lemma_sub_lower(s, c, r);
        } else {
            lemma_prev_in_sub(s, c, x);
            lemma_prev_in_sub(s, m, x);
            lemma_sub_live(s, c, x);
            assert(node_ok(s, x));
            lemma_disjoint_at(s, r, s[x].prev_s().unwrap() as int);
        }
    }
}

proof fn lemma_forest_tree_ok(s: Seq<GraphNode>, r: int)
    requires forest(s), live(s, r)
    ensures tree_ok(s, r)
    decreases s.len() - r
{
    assert(node_ok(s, r));
    let c = s[r].child_s();
    let m = s[r].next_s();
    if c is Some { lemma_forest_tree_ok(s, c.unwrap() as int); }
    if m is Some { lemma_forest_tree_ok(s, m.unwrap() as int); }
    if c is Some && m is Some {
        assert forall|x: int| !(sub(s, c.unwrap() as int).contains(x) && sub(s, m.unwrap() as int).contains(x)) by {
            lemma_disjoint_at(s, r, x);
        }
    }
}

struct Arena { nodes: Vec<GraphNode> }

impl Arena {
    fn node(&self, id: NodeId) -> (r: GraphNode)
        requires id < self.nodes.len(),
        ensures r == self.nodes[id as int],
    {
        let node = self.nodes[id as usize].clone();
        node
    }
    fn set_node(&mut self, id: NodeId, node: GraphNode)
        ensures
            id >= old(self).nodes.len() ==> final(self).nodes@ == old(self).nodes@.push(node),
            id < old(self).nodes.len() ==> final(self).nodes@ == old(self).nodes@.update(id as int, node),
    {
        if id as usize >= self.nodes.len() {
            self.nodes.push(node)
        } else {
            self.nodes[id as usize] = node;
        }
    }

    fn delete_branch(&mut self, from_id: NodeId)
        requires tree_ok(old(self).nodes@, from_id as int),
        ensures
            final(self).nodes@.len() == old(self).nodes@.len(),
            forall|i: int| 0 <= i < old(self).nodes@.len() ==>
                final(self).nodes@[i] == (if sub(old(self).nodes@, from_id as int).contains(i) { GraphNode::Empty } else { old(self).nodes@[i] }),
        decreases old(self).nodes@.len() - from_id,
    {
        let ghost s0 = self.nodes@;
        let ghost c0 = s0[from_id as int].child_s();
        let ghost m0 = s0[from_id as int].next_s();
        if let Some(id) = self.node(from_id).child_id() { self.delete_branch(id); }
        let ghost s1 = self.nodes@;
        proof {
            if c0 is Some {
                assert forall|i: int| sub(s0, c0.unwrap() as int).contains(i) implies i > from_id by {
                    lemma_sub_lower(s0, c0.unwrap() as int, i);
                }
                if m0 is Some {
                    assert forall|i: int| sub(s0, m0.unwrap() as int).contains(i) implies s1[i] == s0[i] by {
                        lemma_sub_lower(s0, m0.unwrap() as int, i);
                    }
                    lemma_sub_frame(s0, s1, m0.unwrap() as int);
                }
            }
            assert(s1[from_id as int] == s0[from_id as int]);
        }

        if let Some(id) = self.node(from_id).next_id() { self.delete_branch(id); }
        let ghost s2 = self.nodes@;
        proof {
            if m0 is Some {
                assert forall|i: int| sub(s0, m0.unwrap() as int).contains(i) implies i > from_id by {
                    lemma_sub_lower(s0, m0.unwrap() as int, i);
                }
            }
        }

        self.set_node(from_id, GraphNode::Empty);
    }
}

} // verus!
fn main() {}
