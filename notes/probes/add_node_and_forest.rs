use vstd::prelude::*;
verus! {
global size_of usize == 8;
type NodeId = u64;
type MaybeNodeId = Option<NodeId>;

#[derive(Debug, PartialEq)]
enum GraphNode { Empty, Document(Document), Section(Section), Leaf(Leaf) }
impl Clone for GraphNode {
    #[verifier::external_body]
    fn clone(&self) -> (r: Self) ensures r == *self { unimplemented!() }
}
#[derive(Debug, PartialEq)]
struct Document { id: NodeId, child: MaybeNodeId }
#[derive(Debug, PartialEq)]
struct Section { id: NodeId, prev: NodeId, next: MaybeNodeId, child: MaybeNodeId }
#[derive(Debug, PartialEq)]
struct Leaf { id: NodeId, prev: NodeId, next: MaybeNodeId }

impl GraphNode {
    spec fn child_s(&self) -> MaybeNodeId {
        match self {
            GraphNode::Document(document) => document.child,
            GraphNode::Section(section) => section.child,
            _ => None,
        }
    }
    spec fn prev_s(&self) -> MaybeNodeId {
        match self {
            GraphNode::Section(section) => Some(section.prev),
            GraphNode::Leaf(leaf) => Some(leaf.prev),
            _ => None,
        }
    }
    spec fn next_s(&self) -> MaybeNodeId {
        match self {
            GraphNode::Section(section) => section.next,
            GraphNode::Leaf(leaf) => leaf.next,
            _ => None,
        }
    }
    spec fn id_s(&self) -> NodeId {
        match self {
            GraphNode::Document(document) => document.id,
            GraphNode::Section(section) => section.id,
            GraphNode::Leaf(leaf) => leaf.id,
            GraphNode::Empty => 0,
        }
    }
    spec fn insertable_s(&self) -> bool {
        (*self is Document) || (*self is Section)
    }
    fn id(&self) -> (r: NodeId)
        requires !(*self is Empty)
        ensures r == self.id_s()
    {
        match self {
            GraphNode::Document(document) => document.id,
            GraphNode::Section(section) => section.id,
            GraphNode::Leaf(leaf) => leaf.id,
            GraphNode::Empty => panic!(),
        }
    }
    fn insertable(&self) -> (r: bool)
        ensures r == self.insertable_s()
    {
        match self {
            GraphNode::Document(_) => true,
            GraphNode::Section(_) => true,
            GraphNode::Leaf(_) => false,
            GraphNode::Empty => false,
        }
    }
    fn set_next_id(&mut self, next: NodeId)
        requires (*old(self) is Section) || (*old(self) is Leaf)
        ensures
            final(self).next_s() == Some(next),
            final(self).child_s() == old(self).child_s(),
            final(self).prev_s() == old(self).prev_s(),
            final(self).id_s() == old(self).id_s(),
            (*final(self) is Section) == (*old(self) is Section),
            (*final(self) is Leaf) == (*old(self) is Leaf),
    {
        match self {
            GraphNode::Section(section) => section.next = Some(next),
            GraphNode::Leaf(leaf) => leaf.next = Some(next),
            GraphNode::Document(_) => panic!("cant set next for document"),
            GraphNode::Empty => panic!(),
        }
    }
    fn set_child_id(&mut self, child: NodeId)
        requires (*old(self) is Section) || (*old(self) is Document)
        ensures
            final(self).child_s() == Some(child),
            final(self).next_s() == old(self).next_s(),
            final(self).prev_s() == old(self).prev_s(),
            final(self).id_s() == old(self).id_s(),
            (*final(self) is Section) == (*old(self) is Section),
            (*final(self) is Document) == (*old(self) is Document),
    {
        match self {
            GraphNode::Document(document) => document.child = Some(child),
            GraphNode::Section(section) => section.child = Some(child),
            GraphNode::Leaf(_) => panic!("cant set child for leaf"),
            GraphNode::Empty => panic!(),
        }
    }
    fn child_id(&self) -> (r: MaybeNodeId)
        ensures r == self.child_s()
    {
        match self {
            GraphNode::Document(document) => document.child,
            GraphNode::Section(section) => section.child,
            _ => None,
        }
    }
    fn next_id(&self) -> (r: MaybeNodeId)
        requires !(*self is Empty)
        ensures r == self.next_s()
    {
        match self {
            GraphNode::Section(section) => section.next,
            GraphNode::Leaf(leaf) => leaf.next,
            GraphNode::Document(_) => None,
            GraphNode::Empty => panic!(),
        }
    }
}

spec fn kid(s: Seq<GraphNode>, r: int, o: MaybeNodeId) -> bool {
    o is Some && r < o.unwrap() < s.len()
}

spec fn sub(s: Seq<GraphNode>, r: int) -> Set<int>
    decreases s.len() - r
{
    if 0 <= r < s.len() {
        let c = s[r].child_s();
        let m = s[r].next_s();
        set![r]
          + (if kid(s, r, c) { sub(s, c.unwrap() as int) } else { Set::empty() })
          + (if kid(s, r, m) { sub(s, m.unwrap() as int) } else { Set::empty() })
    } else {
        Set::empty()
    }
}

spec fn tree_ok(s: Seq<GraphNode>, r: int) -> bool
    decreases s.len() - r
{
    &&& 0 <= r < s.len()
    &&& !(s[r] is Empty)
    &&& (s[r].child_s() is Some ==> kid(s, r, s[r].child_s()) && tree_ok(s, s[r].child_s().unwrap() as int))
    &&& (s[r].next_s() is Some ==> kid(s, r, s[r].next_s()) && tree_ok(s, s[r].next_s().unwrap() as int))
    &&& (s[r].child_s() is Some && s[r].next_s() is Some ==>
            sub(s, s[r].child_s().unwrap() as int).disjoint(sub(s, s[r].next_s().unwrap() as int)))
}

proof fn lemma_sub_lower(s: Seq<GraphNode>, r: int, x: int)
    requires sub(s, r).contains(x)
    ensures r <= x < s.len()
    decreases s.len() - r
{
    if 0 <= r < s.len() {
        let c = s[r].child_s();
        let m = s[r].next_s();
        if kid(s, r, c) && sub(s, c.unwrap() as int).contains(x) { lemma_sub_lower(s, c.unwrap() as int, x); }
        if kid(s, r, m) && sub(s, m.unwrap() as int).contains(x) { lemma_sub_lower(s, m.unwrap() as int, x); }
    }
}

proof fn lemma_sub_frame(s: Seq<GraphNode>, t: Seq<GraphNode>, r: int)
    requires
        s.len() == t.len(),
        tree_ok(s, r),
        forall|i: int| sub(s, r).contains(i) ==> t[i] == s[i],
    ensures
        tree_ok(t, r),
        sub(t, r) == sub(s, r),
    decreases s.len() - r
{
    let c = s[r].child_s();
    let m = s[r].next_s();
    assert(sub(s, r).contains(r));
    if c is Some {
        assert forall|i: int| sub(s, c.unwrap() as int).contains(i) implies t[i] == s[i] by {
            assert(sub(s, r).contains(i));
        }
        lemma_sub_frame(s, t, c.unwrap() as int);
    }
    if m is Some {
        assert forall|i: int| sub(s, m.unwrap() as int).contains(i) implies t[i] == s[i] by {
            assert(sub(s, r).contains(i));
        }
        lemma_sub_frame(s, t, m.unwrap() as int);
    }
}


spec fn live(s: Seq<GraphNode>, i: int) -> bool { 0 <= i < s.len() && !(s[i] is Empty) }

spec fn node_ok(s: Seq<GraphNode>, i: int) -> bool {
    let n = s[i];
    &&& n.id_s() == i
    &&& ((n is Document) <==> (n.prev_s() is None))
    &&& (n.child_s() is Some ==> kid(s, i, n.child_s()) && live(s, n.child_s().unwrap() as int)
            && s[n.child_s().unwrap() as int].prev_s() == Some(i as u64))
    &&& (n.next_s() is Some ==> kid(s, i, n.next_s()) && live(s, n.next_s().unwrap() as int)
            && s[n.next_s().unwrap() as int].prev_s() == Some(i as u64))
    &&& (n.child_s() is Some && n.next_s() is Some ==> n.child_s().unwrap() != n.next_s().unwrap())
    &&& (n.prev_s() is Some ==> {
            let p = n.prev_s().unwrap() as int;
            p < i && live(s, p) && ((s[p].child_s() == Some(i as u64)) != (s[p].next_s() == Some(i as u64)))
        })
}

spec fn forest(s: Seq<GraphNode>) -> bool {
    forall|i: int| #[trigger] live(s, i) ==> node_ok(s, i)
}

proof fn lemma_sub_live(s: Seq<GraphNode>, r: int, x: int)
    requires forest(s), live(s, r), sub(s, r).contains(x)
    ensures live(s, x)
    decreases s.len() - r
{
    let c = s[r].child_s();
    let m = s[r].next_s();
    assert(node_ok(s, r));
    if kid(s, r, c) && sub(s, c.unwrap() as int).contains(x) { lemma_sub_live(s, c.unwrap() as int, x); }
    if kid(s, r, m) && sub(s, m.unwrap() as int).contains(x) { lemma_sub_live(s, m.unwrap() as int, x); }
}

// a non-root member of a subtree has its prev inside the same subtree
proof fn lemma_prev_in_sub(s: Seq<GraphNode>, r: int, x: int)
    requires forest(s), live(s, r), sub(s, r).contains(x), x != r
    ensures s[x].prev_s() is Some, sub(s, r).contains(s[x].prev_s().unwrap() as int)
    decreases s.len() - r
{
    let c = s[r].child_s();
    let m = s[r].next_s();
    assert(node_ok(s, r));
    if kid(s, r, c) && sub(s, c.unwrap() as int).contains(x) {
        let ci = c.unwrap() as int;
        if x == ci {
            assert(sub(s, r).contains(r));
        } else {
            lemma_prev_in_sub(s, ci, x);
        }
    } else if kid(s, r, m) && sub(s, m.unwrap() as int).contains(x) {
        let mi = m.unwrap() as int;
        if x == mi {
            assert(sub(s, r).contains(r));
        } else {
            lemma_prev_in_sub(s, mi, x);
        }
    }
}

proof fn lemma_disjoint_at(s: Seq<GraphNode>, r: int, x: int)
    requires forest(s), live(s, r), s[r].child_s() is Some, s[r].next_s() is Some,
    ensures !(sub(s, s[r].child_s().unwrap() as int).contains(x) && sub(s, s[r].next_s().unwrap() as int).contains(x))
    decreases x
{
    let c = s[r].child_s().unwrap() as int;
    let m = s[r].next_s().unwrap() as int;
    assert(node_ok(s, r));
    if sub(s, c).contains(x) && sub(s, m).contains(x) {
        lemma_sub_lower(s, c, x);
        lemma_sub_lower(s, m, x);
        if x == c {
            lemma_prev_in_sub(s, m, x);
            lemma_sub_lower(s, m, r);
        } else if x == m {
            lemma_prev_in_sub(s, c, x);
            lemma_sub_lower(s, c, r);
        } else {
            lemma_prev_in_sub(s, c, x);
            lemma_prev_in_sub(s, m, x);
            lemma_sub_live(s, c, x);
            assert(node_ok(s, x));
            lemma_disjoint_at(s, r, s[x].prev_s().unwrap() as int);
        }
    }
}

proof fn lemma_forest_tree_ok(s: Seq<GraphNode>, r: int)
    requires forest(s), live(s, r)
    ensures tree_ok(s, r)
    decreases s.len() - r
{
    assert(node_ok(s, r));
    let c = s[r].child_s();
    let m = s[r].next_s();
    if c is Some { lemma_forest_tree_ok(s, c.unwrap() as int); }
    if m is Some { lemma_forest_tree_ok(s, m.unwrap() as int); }
    if c is Some && m is Some {
        assert forall|x: int| !(sub(s, c.unwrap() as int).contains(x) && sub(s, m.unwrap() as int).contains(x)) by {
            lemma_disjoint_at(s, r, x);
        }
    }
}


struct Arena { nodes: Vec<GraphNode> }

impl Arena {
    fn node(&self, id: NodeId) -> (r: GraphNode)
        requires id < self.nodes.len(),
        ensures r == self.nodes[id as int],
    {
        let node = self.nodes[id as usize].clone();
        node
    }
    fn new_node_id(&mut self) -> (r: NodeId)
        ensures r == old(self).nodes.len(), final(self).nodes@ == old(self).nodes@,
    {
        self.nodes.len() as NodeId
    }
    fn set_node(&mut self, id: NodeId, node: GraphNode)
        ensures
            id >= old(self).nodes.len() ==> final(self).nodes@ == old(self).nodes@.push(node),
            id < old(self).nodes.len() ==> final(self).nodes@ == old(self).nodes@.update(id as int, node),
    {
        if id as usize >= self.nodes.len() {
            self.nodes.push(node)
        } else {
            self.nodes[id as usize] = node;
        }
    }
    fn node_mut(&mut self, id: NodeId) -> (r: &mut GraphNode)
        requires live(old(self).nodes@, id as int),
        ensures
            *r == old(self).nodes@[id as int],
            final(self).nodes@ == old(self).nodes@.update(id as int, *final(r)),
    {
        let node = self.nodes[id as usize].clone();

        if matches!(node, GraphNode::Empty) {
            panic!("Node {} is empty", id);
        }

        &mut self.nodes[id as usize]
    }
}

struct Graph { arena: Arena, sequential_keys: bool }

impl Graph {
    fn graph_node(&self, id: NodeId) -> (r: GraphNode)
        requires id < self.arena.nodes.len(),
        ensures r == self.arena.nodes[id as int],
    {
        self.arena.node(id)
    }
    fn node_mut(&mut self, id: NodeId) -> (r: &mut GraphNode)
        requires live(old(self).arena.nodes@, id as int),
        ensures
            *r == old(self).arena.nodes@[id as int],
            final(self).arena.nodes@ == old(self).arena.nodes@.update(id as int, *final(r)),
            final(self).sequential_keys == old(self).sequential_keys,
    {
        self.arena.node_mut(id)
    }
    fn new_node_id(&mut self) -> (r: NodeId)
        ensures r == old(self).arena.nodes.len(), final(self).arena.nodes@ == old(self).arena.nodes@,
    {
        self.arena.new_node_id()
    }
    fn add_graph_node(&mut self, node: GraphNode) -> (id: NodeId)
        ensures id == old(self).arena.nodes.len(), final(self).arena.nodes@ == old(self).arena.nodes@.push(node),
    {
        let id = self.arena.new_node_id();
        self.arena.set_node(id, node);
        id
    }
}

struct GraphBuilder<'a> {
    id: NodeId,
    graph: &'a mut Graph,
    insert: bool,
}

spec fn fresh(n: GraphNode, len: int, cur: int) -> bool {
    !(n is Empty) && !(n is Document) && n.id_s() == len && n.prev_s() == Some(cur as u64)
      && n.child_s() is None && n.next_s() is None
}

spec fn slot_free(s: Seq<GraphNode>, cur: int, insert: bool) -> bool {
    live(s, cur) && (if insert { s[cur].insertable_s() && s[cur].child_s() is None }
                     else { !(s[cur] is Document) && s[cur].next_s() is None })
}

impl<'a> GraphBuilder<'a> {
    fn add_node_and<F>(&mut self, node: GraphNode, f: F)
    where
        F: FnOnce(&mut GraphBuilder<'_>) -> (),
        requires
            forest((*old(self).graph).arena.nodes@),
            slot_free((*old(self).graph).arena.nodes@, old(self).id as int, old(self).insert),
            fresh(node, (*old(self).graph).arena.nodes@.len() as int, old(self).id as int),
            (*old(self).graph).arena.nodes@.len() < u64::MAX,
            forall|b: &mut GraphBuilder<'_>| #[trigger] f.requires((b,)),
    {
        if self.insert {
            self.graph.node_mut(self.id).set_child_id(node.id());
            self.insert = false;
        } else {
            self.graph.node_mut(self.id).set_next_id(node.id());
        }

        self.id = node.id();
        self.graph.add_graph_node(node.clone());

        proof {
            let s0 = (*old(self).graph).arena.nodes@;
            let s1 = (*self.graph).arena.nodes@;
            let cur = old(self).id as int;
            assert(s1.len() == s0.len() + 1);
            assert(s1[s0.len() as int] == node);
            assert(forall|i: int| 0 <= i < s0.len() && i != cur ==> s1[i] == s0[i]);
            assert(self.id == s0.len());
            assert(forest(s1)) by {
                assert forall|i: int| #[trigger] live(s1, i) implies node_ok(s1, i) by {
                    if i == s0.len() {
                        assert(live(s0, cur));
                        assert(node_ok(s0, cur));
                    } else if i == cur {
                        assert(live(s0, cur));
                        assert(node_ok(s0, cur));
                    } else {
                        assert(live(s0, i));
                        assert(node_ok(s0, i));
                    }
                }
            }
        }

        f(&mut GraphBuilder {
            id: self.id,
            graph: self.graph,
            insert: node.insertable(),
        });
    }
}

} // verus!
fn main() {}
