use vstd::prelude::*;
verus! {
global size_of usize == 8;

enum Block { Para(Vec<u64>), List(Vec<Vec<Block>>), Quote(Vec<Block>), Rule }

impl Block {
    fn is_container(&self) -> bool {
        match self {
            Block::Para(_) => false,
            Block::List(_) => true,
            Block::Quote(_) => true,
            Block::Rule => false,
        }
    }
    fn append_block(&mut self, block: Block)
        requires (*old(self) matches Block::List(items) && items.len() > 0) || *old(self) is Quote
    {
        match self {
            Block::List(items) => {
                items.last_mut().unwrap().push(block);
            }
            Block::Quote(blocks) => {
                blocks.push(block);
            }
            _ => panic!(),
        }
    }
}

struct Reader { blocks_stack: Vec<Block>, blocks: Vec<Block> }
impl Reader {
    fn top_block(&mut self) -> &mut Block
        requires old(self).blocks_stack.len() > 0
    {
        self.blocks_stack.last_mut().expect("to have element")
    }
    fn pop_block(&mut self)
        requires old(self).blocks_stack.len() > 0
    {
        let block = self.blocks_stack.pop().unwrap();

        if self.blocks_stack.len() == 0 {
            self.blocks.push(block);
            return;
        }

        if self.top_block().is_container() {
            self.top_block().append_block(block);
        }
    }
}
} // verus!
fn main() {}
