use vstd::prelude::*;
verus! {
global size_of usize == 8;
type NodeId = u64;

struct Graph { nodes: Vec<u64> }

impl Graph {
    fn push(&mut self, v: u64)
        ensures final(self).nodes@ == old(self).nodes@.push(v)
    { self.nodes.push(v) }
    fn len(&self) -> (r: usize) ensures r == self.nodes.len() { self.nodes.len() }
}

struct GraphBuilder<'a> {
    id: NodeId,
    graph: &'a mut Graph,
    insert: bool,
}

impl<'a> GraphBuilder<'a> {
    fn peek(&self) -> (r: usize)
        ensures r == old(self.graph).nodes.len()
    {
        self.graph.len()
    }
    fn add(&mut self, v: u64)
        ensures
            final(self).id == v,
            (*final(self).graph).nodes@ == (*old(self).graph).nodes@.push(v),
    {
        self.graph.push(v);
        self.id = v;
    }
}

} // verus!
fn main() {}
