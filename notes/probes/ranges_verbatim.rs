use vstd::prelude::*;
verus! {
global size_of usize == 8;
type Range = std::ops::Range<usize>;

fn ranges(positions: Vec<usize>, end: usize) -> (r: Vec<Range>)
    requires
        forall|i: int, j: int| 0 <= i < j < positions.len() ==> positions[i] < positions[j],
        forall|i: int| 0 <= i < positions.len() ==> positions[i] <= end,
    ensures
        positions.len() == 0 ==> r.len() == 0,
{
    let mut ranges: Vec<Range> = vec![];

    if positions.is_empty() {
        return vec![];
    }

    for i in 0..positions.len() - 1
        invariant ranges.len() == i,
    {
        ranges.push(positions[i]..positions[i + 1]);
    }
    if positions[positions.len() - 1] < end {
        ranges.push(positions[positions.len() - 1]..end);
    }
    ranges
}

} // verus!
fn main() {}
